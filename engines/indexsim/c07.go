package indexsim

import (
	"context"
	"fmt"
	"os"
	"sort"
	"strings"
	"time"

	"go4.org/types"
	"perkeep.org/pkg/blob"
	"perkeep.org/pkg/index"
	"perkeep.org/pkg/search"

	"verif/harness"
	"verif/simcore"
)

// C07 — permanode attributes and deletions follow the documented claim
// semantics. The oracle is a folding model written from doc/schema/
// permanode.md and delete.md (it never parses perkeep's rows):
//
//	deleted(x)  <=> some delivered delete claim targeting x is not deleted
//	values(pn, attr, T, signer) = fold, in claim-date order, of that signer's
//	  delivered, non-deleted claims on pn dated <= T:
//	  set replaces all, add appends, del with value removes that value,
//	  del without value clears
//
// checked through Corpus.PermanodeAttrValue / AppendPermanodeAttrValues /
// PermanodeHasAttrValue / PermanodeModtime / IsDeleted, Index.AppendClaims /
// IsDeleted and, in the mode without a corpus, search.Handler.Describe (the
// query path that folds the sorted index rows). Claim dates are distinct
// within a world: the documents do not define the order of equal dates.

func genC07(tier string, run int, r *simcore.Rand) *harness.Plan {
	signers := 1
	if NumIdentities() >= 2 && r.Bool(0.2) {
		signers = 2
	}
	b := newWB(r, signers, false)
	npn := 1
	if r.Bool(0.35) {
		npn = 2
	}
	for i := 0; i < npn; i++ {
		b.addPN()
	}
	attrs := []string{"title", "tag", "tag", "camliContent", "a|b"}
	vals := []string{"a", "b", "a", "x y", "a|b", "é", "%"}
	nclaims := r.Range(1, 12)
	if run%25 == 11 {
		// many values of one attribute (more than any small fixed buffer an
		// implementation may fold them in), the first ones deleted by value,
		// a few ordinary claims after them
		pn := b.pns[0]
		nv := r.Range(9, 14)
		nd := r.Range(6, nv)
		ds := make([]int64, nv+nd)
		for i := range ds {
			ds[i] = b.date()
		}
		if r.Bool(0.8) {
			// mostly in date order: all values present, then deleted one by one
			sort.Slice(ds, func(i, j int) bool { return ds[i] < ds[j] })
		}
		for i := 0; i < nv; i++ {
			b.add(Item{K: "claim", PN: pn, S: b.items[pn].S, Attr: "tag", CT: "add", Val: fmt.Sprintf("v%02d", i), D: ds[i]})
		}
		for i := 0; i < nd; i++ {
			b.add(Item{K: "claim", PN: pn, S: b.items[pn].S, Attr: "tag", CT: "del", Val: fmt.Sprintf("v%02d", i), D: ds[nv+i]})
		}
		nclaims = r.Range(1, 3)
	}
	for i := 0; i < nclaims; i++ {
		pn := b.pick(b.pns)
		it := Item{K: "claim", PN: pn, S: b.items[pn].S, Attr: attrs[r.Intn(len(attrs))], D: b.date()}
		if signers > 1 && r.Bool(0.4) {
			it.S = r.Intn(signers)
		}
		switch x := r.Intn(100); {
		case x < 35:
			it.CT = "set"
		case x < 70:
			it.CT = "add"
		default:
			it.CT = "del"
		}
		it.Val = vals[r.Intn(len(vals))]
		if it.CT == "del" && r.Bool(0.45) {
			it.Val = ""
		}
		b.add(it)
	}
	// delete / undelete chains on claims and permanodes, signed by the
	// signer of the blob at the root of the chain
	ndel := 0
	switch x := r.Intn(10); {
	case x < 3:
	case x < 7:
		ndel = r.Range(1, 2)
	default:
		ndel = r.Range(2, 6)
	}
	for i := 0; i < ndel; i++ {
		var cands []int
		for _, d := range b.dels {
			if b.depth(d) < 4 {
				cands = append(cands, d, d)
			}
		}
		cands = append(cands, b.claims...)
		cands = append(cands, b.claims...)
		cands = append(cands, b.pns...)
		t := b.pick(cands)
		b.add(Item{K: "del", S: b.items[t].S, T: t, D: b.date()})
	}
	spec := &WorldSpec{Items: b.items}
	cfg := Config{World: *spec}
	n := len(spec.Items)
	// arrival order: keys first in most runs (dependency handling is C05's
	// subject), everything else permuted
	var order []int
	keysFirst := r.Bool(0.8)
	for _, i := range r.Perm(n) {
		if keysFirst && spec.Items[i].K == "key" {
			continue
		}
		order = append(order, i)
	}
	if keysFirst {
		var ks []int
		for i := range spec.Items {
			if spec.Items[i].K == "key" {
				ks = append(ks, i)
			}
		}
		order = append(ks, order...)
	}
	if r.Bool(0.25) {
		// date order (the order the suite uses), to keep the fast path covered
		w := &world{spec: spec}
		all := make([]int, n)
		for i := range all {
			all[i] = i
		}
		order = w.canonicalOrder(all)
	}
	nclients := 1
	if r.Bool(0.3) {
		nclients = r.Range(2, 3)
	}
	var ops []Op
	for _, i := range order {
		ops = append(ops, Op{K: "deliver", I: i, C: 1 + r.Intn(nclients)})
	}
	if r.Bool(0.12) && len(ops) > 2 {
		// a claim that never arrives
		k := r.Intn(len(ops))
		if spec.Items[ops[k].I].K != "key" {
			ops = append(ops[:k], ops[k+1:]...)
		}
	}
	insert := func(op Op, lo int) {
		at := lo
		if len(ops) > lo {
			at = r.Range(lo, len(ops))
		}
		ops = append(ops[:at], append([]Op{op}, ops[at:]...)...)
	}
	switch r.Intn(3) {
	case 0:
		cfg.Corpus = "" // index rows only
	case 1:
		cfg.Corpus = "op" // corpus loaded from existing rows
		if r.Bool(0.5) {
			ops = append(ops, Op{K: "corpus"})
		} else {
			insert(Op{K: "corpus"}, 1)
		}
	case 2:
		cfg.Corpus = "start" // corpus built incrementally
	}
	if r.Bool(0.35) {
		rs := Op{K: "restart"}
		if r.Bool(0.25) {
			// the re-open meets a read error in the deleted| rows
			rs.IterFault = r.Range(1, 3)
		}
		insert(rs, 1)
	}
	if r.Bool(0.4) {
		insert(Op{K: "check"}, 1)
	}
	for k := r.Intn(3); k > 0; k-- {
		cfg.Times = append(cfg.Times, int64(r.Range(0, 61000)))
	}
	p := &harness.Plan{Mode: "claims", Config: harness.MustJSON(cfg), Bubble: true, Ops: opsJSON(ops)}
	p.LockYield = []int{0, 0, 0, 100, 1000}[r.Intn(5)]
	p.Sticky = []int{0, 0, 500, 900}[r.Intn(4)]
	return p
}

// ---------------------------------------------------------------------------
// the folding model

type claimModel struct {
	w   *world
	in  map[int]bool // delivered items
	del map[int]int  // memo: 1 deleted, 2 not
}

func newClaimModel(w *world, refs map[string]bool) *claimModel {
	// A blob takes part in the semantics once the index can have processed
	// it: delivered, its signer's public key delivered, and for a delete
	// claim its target known. (What happens to blobs still waiting for a
	// dependency is C05's subject.)
	m := &claimModel{w: w, in: map[int]bool{}, del: map[int]int{}}
	ds := newDepState(w, refs)
	for i, b := range w.b {
		if refs[b.RefS] && ds.state(i) == 1 {
			m.in[i] = true
		}
	}
	return m
}

// deleted(x) <=> some delivered delete claim targeting x is itself not deleted.
func (m *claimModel) deleted(i int) bool {
	if v := m.del[i]; v != 0 {
		return v == 1
	}
	m.del[i] = 2
	res := false
	for j := range m.w.b {
		it := m.w.item(j)
		if it.K == "del" && m.in[j] && m.w.b[it.T].RefS == m.w.b[i].RefS && !m.deleted(j) {
			res = true
			break
		}
	}
	if res {
		m.del[i] = 1
	}
	return res
}

// claimsOf lists the delivered attribute claims on pn in date order.
func (m *claimModel) claimsOf(pn int) []int {
	var cs []int
	for j := range m.w.b {
		it := m.w.item(j)
		if it.K == "claim" && m.in[j] && m.w.b[it.PN].RefS == m.w.b[pn].RefS {
			cs = append(cs, j)
		}
	}
	sort.SliceStable(cs, func(a, b int) bool {
		da, db := m.w.item(cs[a]).D, m.w.item(cs[b]).D
		if da != db {
			return da < db
		}
		return m.w.b[cs[a]].RefS < m.w.b[cs[b]].RefS
	})
	return cs
}

// values folds. signer < 0: claims of every signer. skipDeleted=false gives
// the fold that ignores deletions (used only to attribute a wrong answer to
// the recorded finding "folds do not skip deleted claims").
func (m *claimModel) values(pn int, attr string, at time.Time, signer int, skipDeleted bool) []string {
	var v []string
	for _, j := range m.claimsOf(pn) {
		it := m.w.item(j)
		if it.Attr != attr {
			continue
		}
		if signer >= 0 && it.S != signer {
			continue
		}
		if !at.IsZero() && dateOf(it.D).After(at) {
			continue
		}
		if skipDeleted && m.deleted(j) {
			continue
		}
		val := m.w.claimValue(j)
		switch it.CT {
		case "set":
			v = []string{val}
		case "add":
			v = append(v, val)
		case "del":
			if val == "" {
				v = nil
			} else {
				var nv []string
				for _, x := range v {
					if x != val {
						nv = append(nv, x)
					}
				}
				v = nv
			}
		}
	}
	return v
}

func dedupeKeepFirst(v []string) []string {
	seen := map[string]bool{}
	var out []string
	for _, x := range v {
		if !seen[x] {
			seen[x] = true
			out = append(out, x)
		}
	}
	return out
}

func first(v []string) string {
	if len(v) == 0 {
		return ""
	}
	return v[0]
}

func join(v []string) string { return strings.Join(v, "\x1f") }

func show(v []string) string { return fmt.Sprintf("%q", v) }

// ---------------------------------------------------------------------------

type c07Obs struct {
	method, key, got, want, alt string
	refs                        []string
	class                       string // attr-values-wrong | deleted-wrong | claims-wrong | modtime-wrong
}

// observe runs every query of the oracle against the index (inside a task,
// under the index read lock) and returns the answers that differ from the
// model.
func observeC07(s *session, m *claimModel, q *questions, sh *search.Handler) []c07Obs {
	ctx := context.Background()
	w := s.w
	idx, c := s.idx, s.corpus
	var bad []c07Obs
	idx.RLock()
	defer idx.RUnlock()
	signerIdx := func(fi int) int { return fi - 1 } // filter index 0 = "", i+1 = signer i
	var sigs []int
	for sidx := range w.keyID {
		sigs = append(sigs, sidx)
	}
	sort.Ints(sigs)
	// deletions
	for i, b := range w.b {
		it := w.item(i)
		if !m.in[i] || (it.K != "pn" && it.K != "claim" && it.K != "del") {
			continue
		}
		want := fmt.Sprint(m.deleted(i))
		if got := fmt.Sprint(idx.IsDeleted(b.Ref)); got != want {
			bad = append(bad, c07Obs{"Index.IsDeleted", w.describe(i), got, want, "", []string{b.RefS}, "deleted-wrong"})
		}
		if c != nil {
			if got := fmt.Sprint(c.IsDeleted(b.Ref)); got != want {
				bad = append(bad, c07Obs{"Corpus.IsDeleted", w.describe(i), got, want, "", []string{b.RefS}, "deleted-wrong"})
			}
		}
	}
	seenPN := map[string]bool{}
	for _, pn := range q.pns {
		pref := w.b[pn].Ref
		rs := w.b[pn].RefS
		if seenPN[rs] {
			continue
		}
		seenPN[rs] = true
		attrs := q.attrs[pn]
		// claims
		for fi := 0; fi <= len(sigs); fi++ {
			sf := ""
			if fi > 0 {
				sf = w.keyID[sigs[fi-1]]
			}
			for _, af := range append([]string{""}, attrs...) {
				var want []string
				for j := range w.b {
					it := w.item(j)
					if !m.in[j] || m.deleted(j) {
						continue
					}
					if fi > 0 && it.S != sigs[signerIdx(fi)] {
						continue
					}
					switch {
					case it.K == "claim" && w.b[it.PN].RefS == rs && (af == "" || it.Attr == af):
						want = append(want, short(w.b[j].RefS))
					case it.K == "del" && w.b[it.T].RefS == rs && af == "":
						// a delete claim on the permanode is a claim on it
						want = append(want, short(w.b[j].RefS))
					}
				}
				sort.Strings(want)
				want = dedupeKeepFirst(want)
				cls, err := idx.AppendClaims(ctx, nil, pref, sf, af)
				var got []string
				for _, cl := range cls {
					got = append(got, short(cl.BlobRef.String()))
				}
				sort.Strings(got)
				if join(got)+errClass(err) != join(want) {
					bad = append(bad, c07Obs{"Index.AppendClaims", fmt.Sprintf("%s,signerFilter=%q,attr=%q", w.describe(pn), sf, af), show(got) + errClass(err), show(want), "", []string{rs}, "claims-wrong"})
				}
			}
		}
		if c != nil && m.in[pn] && !m.deleted(pn) {
			// modtime: latest non-deleted claim (doc comment of PermanodeModtime;
			// delete.md: (un)deletions are not modifications). Compared only
			// while the permanode itself is not deleted: then every delete
			// claim on it is deleted and the two readings coincide.
			var want time.Time
			for _, j := range m.claimsOf(pn) {
				if !m.deleted(j) && dateOf(w.item(j).D).After(want) {
					want = dateOf(w.item(j).D)
				}
			}
			got, ok := c.PermanodeModtime(pref)
			if !got.Equal(want) || ok != !want.IsZero() {
				bad = append(bad, c07Obs{"Corpus.PermanodeModtime", w.describe(pn), fmt.Sprintf("%s/%v", fmtTime(got), ok), fmt.Sprintf("%s/%v", fmtTime(want), !want.IsZero()), "", []string{rs}, "modtime-wrong"})
			}
		}
		for _, t := range q.times {
			for _, a := range attrs {
				if c != nil {
					for fi := 0; fi <= len(sigs); fi++ {
						sf, sg := "", -1
						if fi > 0 {
							sg = sigs[fi-1]
							sf = w.keyID[sg]
						}
						want := m.values(pn, a, t, sg, true)
						alt := m.values(pn, a, t, sg, false)
						kk := fmt.Sprintf("%s,%q,at=%s,signerFilter=%q", w.describe(pn), a, fmtTime(t), sf)
						if got := c.PermanodeAttrValue(pref, a, t, sf); got != first(want) {
							bad = append(bad, c07Obs{"Corpus.PermanodeAttrValue", kk, fmt.Sprintf("%q", got), fmt.Sprintf("%q", first(want)), fmt.Sprintf("%q", first(alt)), []string{rs}, "attr-values-wrong"})
						}
						if got := c.AppendPermanodeAttrValues(nil, pref, a, t, sf); join(got) != join(want) {
							bad = append(bad, c07Obs{"Corpus.AppendPermanodeAttrValues", kk, show(got), show(want), show(alt), []string{rs}, "attr-values-wrong"})
						}
					}
					want := m.values(pn, a, t, -1, true)
					alt := m.values(pn, a, t, -1, false)
					for _, v := range q.vals[a] {
						has := func(l []string) bool {
							for _, x := range l {
								if x == v {
									return true
								}
							}
							return false
						}
						if got := c.PermanodeHasAttrValue(pref, t, a, v); got != has(want) {
							bad = append(bad, c07Obs{"Corpus.PermanodeHasAttrValue", fmt.Sprintf("%s,%q=%q,at=%s", w.describe(pn), a, v, fmtTime(t)), fmt.Sprint(got), fmt.Sprint(has(want)), fmt.Sprint(has(alt)), []string{rs}, "attr-values-wrong"})
						}
					}
				}
			}
			if sh != nil && m.in[pn] {
				// the rows path: search.Handler.Describe folds AppendClaims of
				// the owner (signer 0) at time t; it keeps a value once
				res, err := sh.DescribeLocked(ctx, &search.DescribeRequest{BlobRef: pref, Depth: 1, At: types.Time3339(t)})
				if err != nil || res == nil || res.Meta[rs] == nil || res.Meta[rs].Permanode == nil {
					bad = append(bad, c07Obs{"Handler.Describe", w.describe(pn), fmt.Sprintf("no permanode description (%v)", err), "a description", "", []string{rs}, "attr-values-wrong"})
					continue
				}
				for _, a := range attrs {
					want := dedupeKeepFirst(m.values(pn, a, t, sigs[0], true))
					alt := dedupeKeepFirst(m.values(pn, a, t, sigs[0], false))
					got := []string(res.Meta[rs].Permanode.Attr[a])
					if join(got) != join(want) {
						bad = append(bad, c07Obs{"Handler.Describe", fmt.Sprintf("%s,%q,at=%s", w.describe(pn), a, fmtTime(t)), show(got), show(want), show(alt), []string{rs}, "attr-values-wrong"})
					}
				}
			}
		}
	}
	return bad
}

func execC07(rc *harness.RunCtx, p *harness.Plan, cfg *Config, w *world, ops []Op) *harness.Outcome {
	out := &harness.Outcome{Ops: len(ops), Reached: map[string]int{}}
	seed := p.SchedSeed
	s := newSession(rc, w, "main")
	s.corpusOn = cfg.Corpus == "start"
	s.reseed(simcore.Mix(seed, "seg", "open"))
	if err := s.open(); err != nil {
		out.Inconclusive = "open: " + err.Error()
		return out
	}
	defer func() {
		for k, v := range s.reach {
			out.Reached[k] += v
		}
	}()
	q := newQuestions(w, cfg)
	mode := map[string]string{"": "rows", "op": "scan", "start": "incr"}[cfg.Corpus]
	restarted := false
	probeStatic(w, ops, out, s.corpusOn)
	cz := newC06Causes(w)
	c5 := newCauses(w)
	ids, _ := loadIdentities()

	report := func(o c07Obs, cause string, opIdx int) bool {
		class := o.class
		sig := class + ":" + o.method
		if cause != "" {
			sig += "~" + cause
		}
		m := mode
		if s.corpusOn && mode == "scan" {
			m = "scan"
		} else if !s.corpusOn {
			m = "rows"
		}
		sig += "@" + m
		if restarted {
			sig += "+restart"
		}
		if what, ok := harness.Known(p.Prop, sig); ok {
			out.NoteKnown(what)
			return false
		}
		detail := fmt.Sprintf("%s(%s) = %s; the claim semantics give %s", o.method, o.key, o.got, o.want)
		if survey {
			if os.Getenv("INDEXSIM_SURVEY") == "2" && cause == "" {
				out.NoteKnown("SURVEY " + sig + " :: " + detail + " [history: " + strings.Join(w.describeOps(ops[:min(opIdx, len(ops))]), " | ") + "]")
			} else {
				out.NoteKnown("SURVEY " + sig)
			}
			return false
		}
		out.Violation = harness.Viol(class, sig, fmt.Sprintf("%s [history up to the check: %s]", detail, strings.Join(w.describeOps(ops[:min(opIdx, len(ops))]), " | ")), opIdx)
		rp := *p
		rp.Tape = nil
		out.ReplayPlan = &rp
		return true
	}

	check := func(opIdx int) bool {
		out.SubRuns++
		refs := map[string]bool{}
		for k := range s.delivered {
			refs[k] = true
		}
		if len(s.recvErrs) > 0 {
			out.Inconclusive = "the index refused a well-formed blob: " + clip(s.recvErrs, 2)
			return true
		}
		rows := s.rows()
		m := newClaimModel(w, refs)
		var sh *search.Handler
		if !s.corpusOn {
			// owner = signer 0
			sh = search.NewHandler(s.idx, index.NewOwner(ids[0].keyID, ids[0].ref))
		}
		var bad []c07Obs
		s.reseed(simcore.Mix(seed, "observe", opIdx))
		if herr := s.task("observe", func() { bad = observeC07(s, m, q, sh) }); herr != nil {
			out.Inconclusive = "queries never finished: " + herr.Error()
			return true
		}
		out.Reached["checks"]++
		for i := range w.b {
			if m.in[i] && m.deleted(i) {
				out.Reached["model-deleted-blob"]++
				if w.item(i).K == "claim" {
					out.Reached["model-deleted-claim"]++
				}
				break
			}
		}
		cz.prepare(rows, refs)
		// delete claims the index forgot at a restart and has not indexed since
		forgot := map[string]bool{}
		var markF func(i, d int)
		markF = func(i, d int) {
			if d > 8 {
				return
			}
			forgot[w.b[i].RefS] = true
			switch it := w.item(i); it.K {
			case "del":
				markF(it.T, d+1)
			case "claim":
				markF(it.PN, d+1)
			}
		}
		for i, b := range w.b {
			if c5.delForgot[b.RefS] && !strings.HasSuffix(rows["have:"+b.RefS], "|indexed") {
				markF(i, 0)
			}
		}
		reported := map[string]bool{}
		for _, o := range bad {
			var cs []string
			hit := func(set map[string]bool) bool {
				for _, r := range o.refs {
					if set[r] {
						return true
					}
				}
				return false
			}
			if hit(forgot) {
				cs = append(cs, "delforgot")
			}
			if s.corpusOn && strings.HasPrefix(o.method, "Corpus.") || (s.corpusOn && o.method == "Index.AppendClaims") {
				if hit(cz.affected) {
					cs = append(cs, "corpusdup")
				}
			}
			if (o.method == "Index.IsDeleted" || (!s.corpusOn && (o.method == "Index.AppendClaims" || o.method == "Handler.Describe"))) && restarted && cz.hasDeletedRows {
				cs = append(cs, "idxdeletes")
			}
			if o.class == "attr-values-wrong" && strings.HasPrefix(o.method, "Corpus.") && o.alt != "" && o.got == o.alt && o.alt != o.want {
				cs = append(cs, "deleted-claim-not-skipped")
			}
			cause := strings.Join(cs, "+")
			k := o.class + o.method + cause
			if reported[k] {
				continue
			}
			reported[k] = true
			if report(o, cause, opIdx) {
				return true
			}
		}
		return false
	}

	start, seg := 0, 0
	for i := 0; i <= len(ops); i++ {
		if i < len(ops) && !ops[i].barrier() {
			continue
		}
		cz.beginSegment(s.corpusOn, s.rows())
		cz.sequential = oneClient(ops[start:i]) && !cz.pendingAtStart
		for _, op := range ops[start:i] {
			cz.noteDelivery(op, s.corpusOn)
		}
		s.reseed(simcore.Mix(seed, "seg", seg))
		seg++
		if err := s.segment(ops[start:i], start); err != nil {
			out.Inconclusive = "segment never quiesced: " + err.Error()
			return out
		}
		s.flushRec()
		cz.endSegment()
		start = i + 1
		if i == len(ops) {
			break
		}
		switch ops[i].K {
		case "restart":
			out.Reached["restart-mid-history"]++
			refs := map[string]bool{}
			for k := range s.delivered {
				refs[k] = true
			}
			c5.atRestart(refs, s.rows())
			cz.restart()
			restarted = true
			if _, err := s.reopen(ops[i]); err != nil {
				out.Inconclusive = "restart: " + err.Error()
				return out
			}
		case "corpus":
			if !s.corpusOn {
				out.Reached["corpus-scanned-from-rows"]++
			}
			if err := s.enableCorpus(); err != nil {
				out.Inconclusive = "corpus: " + err.Error()
				return out
			}
		case "check":
			if check(i) {
				return out
			}
		}
	}
	if check(len(ops)) {
		return out
	}
	out.Reached["mode-"+mode]++
	out.ShapeKey = fmt.Sprintf("%s|%s|%s", mode, opKinds(w, ops), claimShape(w))
	nclaims := 0
	for _, op := range ops {
		if op.K == "deliver" && w.item(op.I).K != "key" {
			nclaims++
		}
	}
	out.Nontrivial = nclaims >= 2
	out.Sample = map[string]any{"mode": mode, "blobs": len(w.b), "history": firstN(w.describeOps(ops), 10)}
	return out
}

func claimShape(w *world) string {
	var sb strings.Builder
	for i := range w.b {
		it := w.item(i)
		if it.K == "claim" {
			sb.WriteString(it.CT[:1])
			if it.Val == "" {
				sb.WriteString("0")
			}
		}
	}
	return sb.String()
}

var _ = blob.Ref{}
