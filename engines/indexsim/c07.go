package indexsim

import (
	"verif/harness"
	"verif/simcore"
)

func genC07(tier string, run int, r *simcore.Rand) *harness.Plan { return genC05(tier, run, r) }

func execC07(rc *harness.RunCtx, p *harness.Plan, cfg *Config, w *world, ops []Op) *harness.Outcome {
	return &harness.Outcome{Inconclusive: "C07 not implemented yet"}
}
