package indexsim

import (
	"fmt"
	"os"
	"sort"
	"strings"
	"time"

	"perkeep.org/pkg/index"

	"verif/harness"
	"verif/sim"
	"verif/simcore"
)

// C05 — the index is a function of the set of blobs, not of their arrival
// order. After quiescence the full row dump of the index is compared with
// (a) the dump of the canonical history of the same set (dependencies first,
// one client, fresh rows) and (b) the dump a full Reindex() from the blob
// source produces into wiped rows; blobs whose dependencies are absent must be
// remembered as pending (a "missing|" row and an entry in the in-memory needs
// map), according to a dependency model written from the statement.

func genC05(tier string, run int, r *simcore.Rand) *harness.Plan {
	cfg := Config{ReindexProcs: r.Range(1, 3)}
	perm := r.Bool(0.22)
	var spec *WorldSpec
	if perm {
		spec = genSmallWorld(r, r.Range(3, 5))
		cfg.Perm = true
	} else {
		max := 14
		if r.Bool(0.5) {
			max = 8
		}
		spec = genWorld(r, r.Range(3, max), r.Bool(0.3))
	}
	cfg.World = *spec
	if r.Bool(0.3) {
		cfg.Corpus = "start"
	}
	ops := genArrivals(r, spec, perm, true)
	// A slow blob source (own choice stream: the other draws are as before).
	r2 := simcore.NewRand(simcore.Mix(r.Uint64(), "slow-source"))
	if !perm && r2.Bool(0.12) {
		cfg.StallMissMs = 1000 * r2.Range(1, 60)
	}
	// A big indexing batch while receives are in flight: one run in 250.
	// The index applies backpressure once several thousand blobs were
	// indexed while some receive is still pending; the batch is larger
	// than that.
	if !perm && r2.Intn(250) == 0 {
		cfg.StallMissMs = 1000 * r2.Range(5, 60)
		end := 0
		for end < len(ops) && !ops[end].barrier() {
			end++
		}
		at := r2.Intn(end + 1)
		bulk := Op{K: "bulk", C: r2.Range(1, 4), N: r2.Range(5050, 5600), Seed: r2.Uint64()}
		ops = append(ops[:at], append([]Op{bulk}, ops[at:]...)...)
	}
	// One run in eight: one delivery of a blob with fetch dependencies meets
	// a read error of the blob source (not a not-exist). If it fails, the
	// client repeats it later; if it reports success, it counts.
	if !perm && r2.Bool(0.12) {
		// a file all of whose parts (transitively) were delivered before it:
		// every fetch of that delivery is made by the receive itself, and
		// nothing waits for a file, so no re-index goroutine can run into
		// the fault instead. (Directories are left out: populateDir logs a
		// read error of the static set and indexes the directory without
		// entries - its TODO says so; faults are outside C05's quantifier, so
		// that is noted in DESIGN.md, not judged.)
		var ds []int
		before := map[int]bool{}
		var partsIn func(i int) bool
		partsIn = func(i int) bool {
			for _, pi := range spec.Items[i].Parts {
				if !before[pi] || !partsIn(pi) {
					return false
				}
			}
			return true
		}
		for i, op := range ops {
			if op.K != "deliver" {
				continue
			}
			if spec.Items[op.I].K == "file" && !op.Race && partsIn(op.I) {
				ds = append(ds, i)
			}
			if !op.Race {
				before[op.I] = true
			}
		}
		if len(ds) > 0 {
			at := ds[r2.Intn(len(ds))]
			f := ops[at]
			f.K, f.Race, f.N = "fetchfaultdeliver", false, r2.Range(1, 3)
			// the ordinary delivery stays, as the client's retry
			ops = append(ops[:at], append([]Op{f}, ops[at:]...)...)
		}
	}
	p := &harness.Plan{Mode: "seeded", Config: harness.MustJSON(cfg), Bubble: true, Ops: opsJSON(ops)}
	if perm {
		p.Mode = "perm"
	}
	p.LockYield = []int{0, 0, 50, 300, 1000}[r.Intn(5)]
	p.Sticky = []int{0, 0, 500, 900}[r.Intn(4)]
	return p
}

// genArrivals draws the arrival history for a world. small: at most five
// elements, to be permuted exhaustively. checks: insert "check" barriers.
func genArrivals(r *simcore.Rand, spec *WorldSpec, small, checks bool) []Op {
	n := len(spec.Items)
	w := &world{spec: spec}
	var order []int
	all := make([]int, n)
	for i := range all {
		all[i] = i
	}
	switch x := r.Intn(10); {
	case x < 5:
		order = r.Perm(n)
	case x < 7: // dependencies last: reverse canonical
		c := w.canonicalOrder(all)
		for i := len(c) - 1; i >= 0; i-- {
			order = append(order, c[i])
		}
	case x < 9: // canonical with a few transpositions
		order = w.canonicalOrder(all)
		for k := r.Range(1, 3); k > 0 && n > 1; k-- {
			i, j := r.Intn(n), r.Intn(n)
			order[i], order[j] = order[j], order[i]
		}
	default:
		order = all
	}
	// items held back: delivered in a second phase, or never
	held := map[int]bool{}
	if n >= 2 && r.Bool(0.45) {
		for k := r.Range(1, 2); k > 0; k-- {
			held[r.Intn(n)] = true
		}
	}
	nclients := 1
	if r.Bool(0.7) {
		nclients = r.Range(2, 4)
	}
	race := r.Bool(0.2)
	mk := func(i int) Op {
		op := Op{K: "deliver", I: i, C: 1 + r.Intn(nclients)}
		if race && r.Bool(0.6) {
			op.Race = true
		}
		return op
	}
	var ops []Op
	for _, i := range order {
		if !held[i] {
			ops = append(ops, mk(i))
		}
	}
	if small {
		// at most five elements in all; a restart takes one slot
		if len(ops) > 5 {
			ops = ops[:5]
		}
		if len(ops) <= 4 && len(ops) >= 2 && r.Bool(0.35) {
			k := r.Range(1, len(ops)-1)
			ops = append(ops[:k], append([]Op{{K: "restart"}}, ops[k:]...)...)
		}
		return ops
	}
	// duplicates
	if len(ops) > 0 && r.Bool(0.3) {
		for k := r.Range(1, 2); k > 0; k-- {
			d := ops[r.Intn(len(ops))]
			d.C = 1 + r.Intn(nclients)
			at := r.Intn(len(ops) + 1)
			ops = append(ops[:at], append([]Op{d}, ops[at:]...)...)
		}
	}
	insert := func(op Op) {
		at := 0
		if len(ops) > 0 {
			at = r.Range(1, len(ops))
		}
		ops = append(ops[:at], append([]Op{op}, ops[at:]...)...)
	}
	if r.Bool(0.4) {
		insert(Op{K: "restart"})
		if r.Bool(0.25) {
			insert(Op{K: "restart"})
		}
	}
	if checks && r.Bool(0.3) {
		insert(Op{K: "check"})
	}
	// second phase
	if len(held) > 0 {
		var hs []int
		for i := range held {
			hs = append(hs, i)
		}
		sort.Ints(hs)
		var late []int
		for _, i := range hs {
			if r.Bool(0.65) {
				late = append(late, i)
			}
		}
		if checks {
			ops = append(ops, Op{K: "check"})
		}
		if len(late) > 0 {
			if r.Bool(0.4) {
				ops = append(ops, Op{K: "restart"})
			}
			for _, j := range r.Perm(len(late)) {
				ops = append(ops, mk(late[j]))
			}
		}
	}
	return ops
}

// ---------------------------------------------------------------------------
// oracle dumps (cached per delivered set)

type oracle struct {
	rc    *harness.RunCtx
	w     *world
	cfg   *Config
	seed  uint64
	canon map[string]map[string]string
	reidx map[string]map[string]string
	rerr  map[string]string
	// subRuns counts oracle executions
	n int
	// rows of a lone filler blob (fillerRows)
	fillRef string
	fill    map[string]string
}

func newOracle(rc *harness.RunCtx, w *world, cfg *Config, seed uint64) *oracle {
	return &oracle{rc: rc, w: w, cfg: cfg, seed: seed, canon: map[string]map[string]string{}, reidx: map[string]map[string]string{}, rerr: map[string]string{}}
}

func setKey(refs map[string]bool) string { return strings.Join(sortedKeys(refs), ",") }

// itemsOf: one item per delivered ref.
func (o *oracle) itemsOf(refs map[string]bool) []int {
	byRef := o.w.itemsByRef()
	var items []int
	for _, ref := range sortedKeys(refs) {
		if i, ok := byRef[ref]; ok {
			items = append(items, i)
		}
	}
	sort.Ints(items)
	return items
}

// canonical: dependencies first, a single client, fresh rows.
func (o *oracle) canonical(refs map[string]bool) (map[string]string, error) {
	key := setKey(refs)
	if m, ok := o.canon[key]; ok {
		return m, nil
	}
	o.n++
	s := newSession(o.rc, o.w, "canon")
	s.reseed(simcore.Mix(o.seed, "canon", key))
	if err := s.open(); err != nil {
		return nil, err
	}
	var ops []Op
	for _, i := range o.w.canonicalOrder(o.itemsOf(refs)) {
		ops = append(ops, Op{K: "deliver", I: i, C: 1})
	}
	if err := s.segment(ops, 0); err != nil {
		return nil, fmt.Errorf("canonical history never quiesced: %w", err)
	}
	if len(s.recvErrs) > 0 {
		return nil, fmt.Errorf("canonical history: %s", clip(s.recvErrs, 3))
	}
	m := s.rows()
	o.canon[key] = m
	return m, nil
}

// fillerRows: the rows of one filler blob delivered to a fresh index on its
// own (keys carry its ref, returned for substitution), without the rows an
// empty index has.
func (o *oracle) fillerRows() (string, map[string]string, error) {
	if o.fillRef != "" {
		return o.fillRef, o.fill, nil
	}
	o.n++
	s := newSession(o.rc, o.w, "filler")
	s.reseed(simcore.Mix(o.seed, "filler"))
	if err := s.open(); err != nil {
		return "", nil, err
	}
	if err := s.await(); err != nil {
		return "", nil, err
	}
	empty := s.rows()
	// same length as the fillers of fillerBlob: the size is part of the rows
	if err := s.segment([]Op{{K: "bulk", C: 1, N: 1, Seed: 0xf111e5}}, 0); err != nil {
		return "", nil, err
	}
	if len(s.recvErrs) > 0 {
		return "", nil, fmt.Errorf("%s", clip(s.recvErrs, 3))
	}
	br, _ := fillerBlob(0xf111e5, 0)
	m := map[string]string{}
	for k, v := range s.rows() {
		if ev, ok := empty[k]; ok && ev == v {
			continue
		}
		if !strings.Contains(k, br.String()) || strings.Contains(v, br.String()) {
			return "", nil, fmt.Errorf("unexpected row %q=%q for a lone opaque blob", k, v)
		}
		m[k] = v
	}
	if len(m) == 0 {
		return "", nil, fmt.Errorf("a lone opaque blob left no rows")
	}
	o.fillRef, o.fill = br.String(), m
	return o.fillRef, o.fill, nil
}

// reindex: a full Reindex() from a blob source holding exactly refs into
// wiped rows. The error Reindex returns is kept (it reports blobs still
// waiting for dependencies, which is expected when some never arrive).
func (o *oracle) reindex(refs map[string]bool) (map[string]string, string, error) {
	key := setKey(refs)
	if m, ok := o.reidx[key]; ok {
		return m, o.rerr[key], nil
	}
	o.n++
	s := newSession(o.rc, o.w, "reindex")
	s.reseed(simcore.Mix(o.seed, "reindex", key))
	for _, i := range o.itemsOf(refs) {
		s.srcSt.Put(o.w.b[i].RefS, o.w.b[i].Data)
	}
	// stale rows that a wipe must remove
	s.kvSt.M["meta:stale"] = "1|"
	s.kvSt.M["schemaversion"] = "5"
	if err := s.open(); err != nil {
		return nil, "", err
	}
	procs := o.cfg.ReindexProcs
	if procs < 1 {
		procs = 1
	}
	var rerr error
	herr := s.task("reindex", func() {
		index.VerifSetReindexMaxProcs(procs)
		rerr = s.idx.Reindex()
	})
	if herr != nil {
		return nil, "", fmt.Errorf("Reindex never finished: %w", herr)
	}
	if err := s.await(); err != nil {
		return nil, "", fmt.Errorf("Reindex never quiesced: %w", err)
	}
	m := s.rows()
	o.reidx[key] = m
	if rerr != nil {
		o.rerr[key] = rerr.Error()
	}
	return m, o.rerr[key], nil
}

// ---------------------------------------------------------------------------

// survey (development aid): note every violation signature and go on.
var survey = os.Getenv("INDEXSIM_SURVEY") != ""

type histResult struct {
	viol   *harness.Violation
	incon  string
	checks int
}

type histFlags struct {
	restart, race, corpus, dup, conc bool
}

func (f histFlags) String() string {
	s := "seq"
	if f.conc {
		s = "conc"
	}
	if f.race {
		s += "+race"
	}
	if f.restart {
		s += "+restart"
	}
	if f.corpus {
		s += "+corpus"
	}
	return s
}

// causes tracks, along one history, the blobs whose failure to get indexed is
// explained by one of the recorded findings, so that their signatures can be
// told apart from everything else:
//
//	delforgot    — a delete claim waiting for its target when the index was
//	               restarted: its "missing|" row had been deleted right after
//	               it was written, so the new process does not know it waits
//	stalemissing — a blob that had a satisfied "missing|have|dep" row left
//	               behind when the index was restarted: the new process waits
//	               for a dependency that will never be announced again
//	racesrc      — a blob that (or a fetch dependency of which) was handed to
//	               the index before it was fetchable from the blob source
type causes struct {
	w         *world
	delForgot map[string]bool
	stale     map[string]bool
	raced     map[string]bool
}

func newCauses(w *world) *causes {
	return &causes{w: w, delForgot: map[string]bool{}, stale: map[string]bool{}, raced: map[string]bool{}}
}

// atRestart records what the restart makes the index forget.
func (c *causes) atRestart(refs map[string]bool, rows map[string]string) {
	ds := newDepState(c.w, refs)
	for i, b := range c.w.b {
		if refs[b.RefS] && c.w.item(i).K == "del" && ds.state(i) == 2 {
			c.delForgot[b.RefS] = true
		}
	}
	for k := range rows {
		if !strings.HasPrefix(k, "missing|") {
			continue
		}
		parts := strings.Split(k, "|")
		if len(parts) == 3 && refs[parts[2]] {
			c.stale[parts[1]] = true
		}
	}
}

func (c *causes) fetchDepRaced(i int) bool {
	it := c.w.item(i)
	switch it.K {
	case "pn", "claim", "del":
		if ki, ok := c.w.keyOf[it.S]; ok && ki >= 0 && c.raced[c.w.b[ki].RefS] {
			return true
		}
	case "file", "bytes":
		for _, pi := range it.Parts {
			if c.raced[c.w.b[pi].RefS] || c.fetchDepRaced(pi) {
				return true
			}
		}
	case "dir":
		return c.raced[c.w.b[it.Ent].RefS] || c.fetchDepRaced(it.Ent)
	case "sset":
		for _, mi := range it.Merge {
			if c.raced[c.w.b[mi].RefS] || c.fetchDepRaced(mi) {
				return true
			}
		}
	}
	return false
}

// of returns the recorded causes that explain why ref is not (fully) indexed.
func (c *causes) of(ref string, depth int) map[string]bool {
	out := map[string]bool{}
	if c.delForgot[ref] {
		out["delforgot"] = true
	}
	if c.stale[ref] {
		out["stalemissing"] = true
	}
	if c.raced[ref] {
		out["racesrc"] = true
	}
	for i, b := range c.w.b {
		if b.RefS != ref {
			continue
		}
		if c.fetchDepRaced(i) {
			out["racesrc"] = true
		}
		if c.w.item(i).K == "del" && depth < 6 {
			for k := range c.of(c.w.b[c.w.item(i).T].RefS, depth+1) {
				out[k] = true
			}
		}
	}
	return out
}

// explain: every diff row must mention a blob with a recorded cause, or be a
// left-over satisfied "missing|" edge; returns "" if some row is unexplained.
func (c *causes) explain(diffs []string, refs map[string]bool, stuck, indexed map[string]bool) string {
	all := map[string]bool{}
	for _, d := range diffs {
		i := strings.IndexByte(d, '"')
		j := strings.Index(d, "\"=")
		if k := strings.Index(d, "\": got"); k > 0 && (j < 0 || k < j) {
			j = k
		}
		if i < 0 || j < i {
			return ""
		}
		key := d[i+1 : j]
		got := map[string]bool{}
		if strings.HasPrefix(key, "missing|") {
			parts := strings.Split(key, "|")
			if len(parts) == 3 {
				// a satisfied edge left behind while the blob still waits
				// for something else (not: left behind by an indexed blob)
				if strings.HasPrefix(d, "extra row") && refs[parts[2]] && refs[parts[1]] && !indexed[parts[1]] {
					got["stalemissing"] = true
				}
				// the edges of a waiting blob differ because of what made it wait
				for k := range c.of(parts[1], 0) {
					got[k] = true
				}
			}
		}
		if strings.HasPrefix(key, "signerkeyid:") {
			// written by claims only: absent while every claim of the signer is stuck
			kref := strings.TrimPrefix(key, "signerkeyid:")
			for i, b := range c.w.b {
				it := c.w.item(i)
				if !stuck[b.RefS] || (it.K != "claim" && it.K != "del") {
					continue
				}
				if ki, ok := c.w.keyOf[it.S]; ok && ki >= 0 && c.w.b[ki].RefS == kref {
					for k := range c.of(b.RefS, 0) {
						got[k] = true
					}
				}
			}
		}
		for _, b := range c.w.b {
			if stuck[b.RefS] && strings.Contains(key, b.RefS) {
				for k := range c.of(b.RefS, 0) {
					got[k] = true
				}
			}
		}
		// rows about a blob that itself reached the index before the blob
		// source, or about the contents of a file that did (rows keyed by
		// the whole-file digest: EXIF, image size): what the indexer reads
		// back from the source while indexing such a file - the file's own
		// schema blob included - may be missing there, and those read errors
		// are dropped (populateFile logs "error parsing EXIF" and goes on)
		for i, b := range c.w.b {
			if !strings.Contains(key, b.RefS) {
				continue
			}
			if c.raced[b.RefS] {
				got["racesrc"] = true
			}
			for j, fb := range c.w.b {
				if c.w.item(j).K != "file" || !c.raced[fb.RefS] {
					continue
				}
				for _, pi := range c.w.item(j).Parts {
					if pi == i {
						got["racesrc"] = true
					}
				}
			}
		}
		if len(got) == 0 {
			return ""
		}
		for k := range got {
			all[k] = true
		}
	}
	return strings.Join(sortedKeys(all), "+")
}

// runHistory executes one arrival history and checks it at every "check"
// barrier and at the end. Known findings are noted on out and exploration
// continues; the first other violation is returned.
func runHistoryC05(rc *harness.RunCtx, p *harness.Plan, cfg *Config, w *world, ops []Op, seed uint64, orc *oracle, out *harness.Outcome) histResult {
	var res histResult
	s := newSession(rc, w, "main")
	s.corpusOn = cfg.Corpus == "start"
	s.stallMiss = time.Duration(cfg.StallMissMs) * time.Millisecond
	for _, op := range ops {
		if op.K == "fetchfaultdeliver" {
			s.srcFaults = true
		}
	}
	s.reseed(simcore.Mix(seed, "seg", "open"))
	if err := s.open(); err != nil {
		res.incon = "open: " + err.Error()
		return res
	}
	defer func() {
		for k, v := range s.reach {
			out.Reached[k] += v
		}
	}()
	var fl histFlags
	fl.corpus = s.corpusOn
	clients := map[int]bool{}
	seen := map[int]bool{}
	for _, op := range ops {
		if op.K == "deliver" {
			clients[op.C] = true
			if op.Race {
				fl.race = true
			}
			if seen[op.I] {
				fl.dup = true
			}
			seen[op.I] = true
		}
	}
	fl.conc = len(clients) > 1
	probeStatic(w, ops, out, s.corpusOn)
	cs := newCauses(w)
	byRef := w.itemsByRef()

	report := func(class, fam, cause, detail string, opIdx int) bool {
		sig := class
		if fam != "" {
			sig += ":" + fam
		}
		if cause != "" {
			sig += "~" + cause
		}
		sig += "@" + fl.String()
		if what, ok := harness.Known(p.Prop, sig); ok {
			out.NoteKnown(what)
			return false
		}
		if survey {
			if os.Getenv("INDEXSIM_SURVEY") == "2" && cause == "" {
				out.NoteKnown("SURVEY " + sig + " :: " + detail)
			} else {
				out.NoteKnown("SURVEY " + sig)
			}
			return false
		}
		hist := strings.Join(w.describeOps(ops), " | ")
		res.viol = harness.Viol(class, sig, fmt.Sprintf("%s [history: %s]", detail, hist), opIdx)
		return true
	}
	causeOf := func(ref string) string { return strings.Join(sortedKeys(cs.of(ref, 0)), "+") }

	check := func(opIdx int) bool {
		res.checks++
		if len(s.recvErrs) > 0 {
			if report("receive-error", "", "", "the index refused a well-formed blob: "+clip(s.recvErrs, 3), opIdx) {
				return true
			}
			s.recvErrs = nil
		}
		refs := map[string]bool{}
		for k := range s.delivered {
			refs[k] = true
		}
		rows := s.rows()
		if len(s.fillers) > 0 {
			// The fillers of a bulk delivery depend on nothing and nothing
			// depends on them: each must have exactly the rows it gets
			// when it is the only blob of an index. They are then left out
			// of the comparison with the oracle histories.
			tmplRef, tmpl, err := orc.fillerRows()
			if err != nil {
				res.incon = "filler oracle: " + err.Error()
				return true
			}
			var bad []string
			for _, ref := range sortedKeys(s.fillers) {
				for tk, tv := range tmpl {
					k := strings.ReplaceAll(tk, tmplRef, ref)
					if got, ok := rows[k]; !ok || got != tv {
						if len(bad) < 6 {
							bad = append(bad, fmt.Sprintf("row %q: got %q (present=%v) want %q", k, got, ok, tv))
						}
					}
					delete(rows, k)
				}
			}
			if len(bad) > 0 {
				if report("filler-rows", "", "", fmt.Sprintf("opaque blobs of a bulk delivery of %d do not have the rows an opaque blob gets on its own: %s", len(s.fillers), clip(bad, 6)), opIdx) {
					return true
				}
			}
			out.Reached["bulk-delivery-checked"]++
		}
		probeRows(s, out, rows)
		ds := newDepState(w, refs)
		// blobs the model says are complete but the index has not finished
		stuck := map[string]bool{}
		indexed := map[string]bool{}
		for ref := range refs {
			if strings.HasSuffix(rows["have:"+ref], "|indexed") {
				indexed[ref] = true
			}
			if st := ds.refState(ref); st == 1 && !strings.HasSuffix(rows["have:"+ref], "|indexed") {
				stuck[ref] = true
			} else if st == 2 {
				if _, ok := rows["meta:"+ref]; !ok {
					stuck[ref] = true
				}
			}
		}
		canon, err := orc.canonical(refs)
		if err != nil {
			res.incon = "canonical oracle: " + err.Error()
			return true
		}
		if d := diffRows(rows, canon, nil); len(d) > 0 {
			if report("rows-differ-from-canonical", diffFamilies(d), cs.explain(d, refs, stuck, indexed), fmt.Sprintf("after quiescence the index rows differ from those of the canonical (dependencies-first) history of the same %d blobs: %s", len(refs), clip(d, 6)), opIdx) {
				return true
			}
		}
		reidx, rerr, err := orc.reindex(refs)
		if err != nil {
			res.incon = "reindex oracle: " + err.Error()
			return true
		}
		if d := diffRows(rows, reidx, nil); len(d) > 0 {
			if report("rows-differ-from-reindex", diffFamilies(d), cs.explain(d, refs, stuck, indexed), fmt.Sprintf("after quiescence the index rows differ from those a full Reindex() from the blob source produces (Reindex said: %q): %s", rerr, clip(d, 6)), opIdx) {
				return true
			}
		}
		// pending blobs, by the dependency model
		edges, ready := s.idx.VerifNeeds()
		memHave := map[string]bool{}
		for _, e := range edges {
			memHave[strings.SplitN(e, " ", 2)[0]] = true
		}
		npend := 0
		for _, ref := range sortedKeys(refs) {
			st := ds.refState(ref)
			hv, hasHave := rows["have:"+ref]
			indexed := hasHave && strings.HasSuffix(hv, "|indexed")
			hasRow := false
			for k := range rows {
				if strings.HasPrefix(k, "missing|"+ref+"|") {
					hasRow = true
					break
				}
			}
			item := byRef[ref]
			kind := w.item(item).K
			if st == 1 {
				if !indexed {
					if report("not-indexed", kind, causeOf(ref), fmt.Sprintf("blob %s (%s) has all its dependencies but is not marked indexed (have row %q)", ref, w.describe(item), hv), opIdx) {
						return true
					}
				}
				continue
			}
			npend++
			if st == 2 {
				out.Reached["pending-index-dep"]++
			} else {
				out.Reached["pending-fetch-dep"]++
			}
			if indexed {
				if report("pending-dropped", "marked-indexed:"+kind, "", fmt.Sprintf("blob %s (%s) lacks a dependency but is marked indexed", ref, w.describe(item)), opIdx) {
					return true
				}
			}
			if !hasRow {
				if report("pending-dropped", "no-missing-row:"+kind, "", fmt.Sprintf("blob %s (%s) waits for a dependency that has not arrived, but no \"missing|%s|...\" row records it: after a restart the index will not know it is pending", ref, w.describe(item), ref), opIdx) {
					return true
				}
			}
			if !memHave[ref] {
				// explained only by a recorded cause attached to this very blob
				if report("pending-dropped", "not-in-needs:"+kind, causeOf(ref), fmt.Sprintf("blob %s (%s) waits for a dependency but the in-memory needs map has no entry for it (edges: %v)", ref, w.describe(item), edges), opIdx) {
					return true
				}
			}
		}
		for _, h := range sortedKeys(memHave) {
			if refs[h] && ds.refState(h) == 1 {
				if report("stale-need", w.item(byRef[h]).K, causeOf(h), fmt.Sprintf("in-memory needs map still lists %s although all its dependencies are present (edges %v)", h, edges), opIdx) {
					return true
				}
			}
		}
		if len(ready) > 0 {
			c := "racesrc"
			for _, r := range ready {
				if !cs.raced[r] {
					c = ""
				}
			}
			if report("ready-not-run", "", c, fmt.Sprintf("at quiescence %d blobs sit in the ready-to-reindex queue and nothing will run them: %v", len(ready), ready), opIdx) {
				return true
			}
		}
		if npend > 0 {
			out.Reached["check-with-pending"]++
		}
		return false
	}

	// segments
	start := 0
	seg := 0
	sawDeliver := false
	for i := 0; i <= len(ops); i++ {
		if i < len(ops) && !ops[i].barrier() {
			continue
		}
		for _, op := range ops[start:i] {
			if op.Race {
				cs.raced[w.b[op.I].RefS] = true
			}
		}
		s.reseed(simcore.Mix(seed, "seg", seg))
		seg++
		if err := s.segment(ops[start:i], start); err != nil {
			if report("never-quiesces", "", "", "the index did not settle after the arrivals stopped: "+err.Error(), i) {
				return res
			}
			res.incon = "segment: " + err.Error()
			return res
		}
		s.flushRec()
		if i > start {
			sawDeliver = true
		}
		start = i + 1
		if i == len(ops) {
			break
		}
		switch ops[i].K {
		case "restart":
			if sawDeliver {
				out.Reached["restart-mid-history"]++
			}
			if e, _ := s.idx.VerifNeeds(); len(e) > 0 {
				out.Reached["restart-with-pending"]++
			}
			refs := map[string]bool{}
			for k := range s.delivered {
				refs[k] = true
			}
			cs.atRestart(refs, s.rows())
			fl.restart = true
			if err := s.open(); err != nil {
				if report("restart-failed", "", "", "re-opening the index over its own rows failed: "+err.Error(), i) {
					return res
				}
				res.incon = "restart: " + err.Error()
				return res
			}
		case "corpus":
			if err := s.enableCorpus(); err != nil {
				res.incon = "corpus: " + err.Error()
				return res
			}
			fl.corpus = true
		case "check":
			if check(i) {
				return res
			}
		case "fetchfaultdeliver":
			if _, err := s.fetchFaultDeliver(ops[i], i); err != nil {
				if report("never-quiesces", "", "", "the index did not settle after a delivery that met a read error of the blob source: "+err.Error(), i) {
					return res
				}
				res.incon = "fetchfaultdeliver: " + err.Error()
				return res
			}
			s.flushRec()
		}
	}
	check(len(ops))
	return res
}

func execC05(rc *harness.RunCtx, p *harness.Plan, cfg *Config, w *world, ops []Op) *harness.Outcome {
	out := &harness.Outcome{Ops: len(ops), Reached: map[string]int{}}
	oseed := p.SchedSeed
	if cfg.OracleSeed != 0 {
		oseed = cfg.OracleSeed
	}
	orc := newOracle(rc, w, cfg, oseed)
	finish := func() *harness.Outcome {
		out.SubRuns += orc.n
		mode := "seeded"
		if cfg.Perm {
			mode = "perm"
		}
		out.ShapeKey = fmt.Sprintf("%s|%s|%s|ly%d", mode, cfg.Corpus, opKinds(w, ops), p.LockYield)
		ndel := 0
		for _, op := range ops {
			if op.K == "deliver" {
				ndel++
			}
		}
		out.Nontrivial = ndel >= 2
		out.Sample = map[string]any{"mode": mode, "blobs": len(w.b), "corpus": cfg.Corpus, "history": firstN(w.describeOps(ops), 10)}
		return out
	}
	if cfg.Perm && len(ops) <= 6 && len(ops) >= 1 {
		out.Reached["perm-exhaustive"]++
		j := 0
		stop := false
		permutations(len(ops), func(pi []int) bool {
			sub := make([]Op, len(ops))
			for k, x := range pi {
				sub[k] = ops[x]
			}
			seed := simcore.Mix(p.SchedSeed, "perm", j)
			j++
			out.SubRuns++
			r := runHistoryC05(rc, p, cfg, w, sub, seed, orc, out)
			if r.incon != "" {
				out.Inconclusive = r.incon
				stop = true
				return false
			}
			if r.viol != nil {
				out.Violation = r.viol
				rp := *p
				rp.Mode = "seeded"
				c2 := *cfg
				c2.Perm = false
				c2.OracleSeed = oseed
				rp.Config = harness.MustJSON(c2)
				rp.Ops = opsJSON(sub)
				rp.SchedSeed = seed
				rp.Tape = nil
				out.ReplayPlan = &rp
				stop = true
				return false
			}
			return true
		})
		_ = stop
		return finish()
	}
	r := runHistoryC05(rc, p, cfg, w, ops, p.SchedSeed, orc, out)
	out.SubRuns++
	if r.incon != "" {
		out.Inconclusive = r.incon
		return out
	}
	if r.viol != nil {
		out.Violation = r.viol
		rp := *p
		rp.Tape = nil
		out.ReplayPlan = &rp
	}
	return finish()
}

func firstN(s []string, n int) []string {
	if len(s) > n {
		return append(append([]string{}, s[:n]...), fmt.Sprintf("... %d more", len(s)-n))
	}
	return s
}

// probeStatic records shape probes that follow from the plan alone.
func probeStatic(w *world, ops []Op, out *harness.Outcome, corpus bool) {
	lastDate := map[int]int64{}
	seen := map[int]bool{}
	for _, op := range ops {
		if op.K != "deliver" {
			continue
		}
		it := w.item(op.I)
		if seen[op.I] {
			out.Reached["dup-delivery"]++
		}
		seen[op.I] = true
		if op.Race {
			out.Reached["race-put"]++
		}
		switch it.K {
		case "claim":
			if d, ok := lastDate[it.PN]; ok && it.D < d {
				out.Reached["out-of-order-claim-date"]++
				if corpus {
					out.Reached["corpus-restoreInvariants"]++
				}
			} else if ok && it.D == d {
				out.Reached["equal-claim-date"]++
			}
			if it.D > lastDate[it.PN] {
				lastDate[it.PN] = it.D
			}
		case "del":
			if w.delDepth(op.I) >= 3 {
				out.Reached["delete-chain-depth3"]++
			}
			if !seen[it.T] {
				out.Reached["delete-before-target"]++
			}
		case "file":
			for _, pi := range it.Parts {
				if w.item(pi).K == "bytes" {
					out.Reached["file-bytes-tree"]++
					break
				}
			}
		case "sset":
			if len(it.Merge) > 0 {
				out.Reached["static-set-merge"]++
			}
		}
	}
}

// probeRows derives dynamic probes from the KV mutation log: a "missing|" row
// written = a dependency miss was recorded; a blob for which such a row was
// written and that is marked indexed later was indexed after its dependency
// arrived (the re-index goroutine ran, or a duplicate delivery did the work).
func probeRows(s *session, out *harness.Outcome, rows map[string]string) {
	byRef := s.w.itemsByRef()
	if s.waited == nil {
		s.waited = map[string]bool{}
	}
	for _, ev := range s.kvSt.Log {
		if ev.Op != "set" || !strings.HasPrefix(ev.Key, "missing|") {
			continue
		}
		parts := strings.Split(ev.Key, "|")
		if len(parts) != 3 {
			continue
		}
		i, ok := byRef[parts[1]]
		if ok && s.w.item(i).K == "del" && s.w.b[s.w.item(i).T].RefS == parts[2] {
			out.Reached["missing-dep-index"]++
		} else {
			out.Reached["missing-dep-fetch"]++
		}
		s.waited[parts[1]] = true
	}
	s.kvSt.Log = nil
	for _, ref := range sortedKeys(s.waited) {
		if strings.HasSuffix(rows["have:"+ref], "|indexed") {
			out.Reached["reindex-goroutine-ran"]++
			delete(s.waited, ref)
		}
	}
}

var _ = sim.NewEnv
