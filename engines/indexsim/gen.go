package indexsim

import (
	"fmt"
	"sort"

	"verif/simcore"
)

// world builder used by the generators; everything is drawn from r.
type wb struct {
	r       *simcore.Rand
	items   []Item
	signers int
	pns     []int
	claims  []int
	dels    []int
	files   []int
	blobs   []int
	dirs    []int
	dates   map[int64]bool
	allowEq bool
	nblob   int
}

func newWB(r *simcore.Rand, signers int, allowEq bool) *wb {
	b := &wb{r: r, signers: signers, dates: map[int64]bool{}, allowEq: allowEq}
	for s := 0; s < signers; s++ {
		b.add(Item{K: "key", S: s})
	}
	return b
}

func (b *wb) add(it Item) int {
	b.items = append(b.items, it)
	i := len(b.items) - 1
	switch it.K {
	case "pn":
		b.pns = append(b.pns, i)
	case "claim":
		b.claims = append(b.claims, i)
	case "del":
		b.dels = append(b.dels, i)
	case "file":
		b.files = append(b.files, i)
	case "blob":
		b.blobs = append(b.blobs, i)
	case "dir":
		b.dirs = append(b.dirs, i)
	}
	return i
}

func (b *wb) n() int { return len(b.items) }

func (b *wb) date() int64 {
	r := b.r
	if b.allowEq && len(b.dates) > 0 && r.Bool(0.3) {
		// reuse a date (equal dates)
		ks := make([]int64, 0, len(b.dates))
		for k := range b.dates {
			ks = append(ks, k)
		}
		sort.Slice(ks, func(i, j int) bool { return ks[i] < ks[j] })
		return ks[r.Intn(len(ks))]
	}
	for {
		d := int64(1+r.Intn(60))*1000 + int64(r.Intn(3))
		if !b.dates[d] {
			b.dates[d] = true
			return d
		}
	}
}

func (b *wb) pick(list []int) int { return list[b.r.Intn(len(list))] }

func (b *wb) addPN() int {
	return b.add(Item{K: "pn", S: b.r.Intn(b.signers), Key: fmt.Sprintf("pn%d", len(b.pns))})
}

var plainVals = []string{"a", "b", "c", "a|b", "x y", "é", "%", "a%7Cb", "v1", "v2"}

func (b *wb) addClaim(pn int) int {
	r := b.r
	it := Item{K: "claim", PN: pn, S: b.item(pn).S}
	if b.signers > 1 && r.Bool(0.3) {
		it.S = r.Intn(b.signers)
	}
	switch x := r.Intn(100); {
	case x < 45:
		it.CT = "set"
	case x < 75:
		it.CT = "add"
	default:
		it.CT = "del"
	}
	attrs := []string{"title", "tag", "tag", "camliContent", "camliMember", "camliPath:foo", "camliPath:b r", "camliNodeType", "camliRoot", "description", "a|b"}
	it.Attr = attrs[r.Intn(len(attrs))]
	switch it.Attr {
	case "camliContent":
		if c := append(append([]int{}, b.files...), b.blobs...); len(c) > 0 && r.Bool(0.8) {
			it.Ref = b.pick(c) + 1
		} else if len(b.pns) > 0 {
			it.Ref = b.pick(b.pns) + 1
		}
	case "camliMember", "camliPath:foo", "camliPath:b r":
		c := append(append([]int{}, b.pns...), b.files...)
		if len(c) > 0 && r.Bool(0.85) {
			it.Ref = b.pick(c) + 1
		}
	case "camliNodeType":
		it.Val = []string{"foursquare.com:checkin", "dir|x"}[r.Intn(2)]
	}
	if it.Ref == 0 && it.Val == "" {
		it.Val = plainVals[r.Intn(len(plainVals))]
	}
	if it.CT == "del" && r.Bool(0.5) {
		it.Ref, it.Val = 0, ""
	}
	it.D = b.date()
	return b.add(it)
}

func (b *wb) item(i int) *Item { return &b.items[i] }

func (b *wb) depth(i int) int {
	d := 0
	for b.items[i].K == "del" {
		d++
		i = b.items[i].T
	}
	return d
}

// addDel adds a delete claim on a permanode, a claim or another delete claim
// (chains up to depth 4); rarely on a blob that is neither (odd branch).
func (b *wb) addDel() int {
	r := b.r
	var cands []int
	for _, d := range b.dels {
		if b.depth(d) < 4 {
			cands = append(cands, d, d) // favour chains
		}
	}
	cands = append(cands, b.claims...)
	cands = append(cands, b.pns...)
	if len(b.files) > 0 && r.Bool(0.05) {
		cands = append(cands, b.files...)
	}
	if len(cands) == 0 {
		return -1
	}
	t := b.pick(cands)
	s := b.items[t].S
	if b.items[t].K == "file" {
		s = 0
	}
	if b.signers > 1 && r.Bool(0.15) {
		s = r.Intn(b.signers)
	}
	return b.add(Item{K: "del", S: s, T: t, D: b.date()})
}

func (b *wb) addBlob() int {
	b.nblob++
	seed := b.r.Uint64() % 1000
	if len(b.blobs) > 0 && b.r.Bool(0.1) {
		// a duplicate: same content as an existing opaque blob
		o := b.items[b.pick(b.blobs)]
		return b.add(Item{K: "blob", Seed: o.Seed, Size: o.Size})
	}
	return b.add(Item{K: "blob", Seed: seed, Size: b.r.Range(1, 48)})
}

// addMedia adds blobs the index treats specially by their bytes: a blob larger
// than a schema blob may be that starts like a PNG (the sniffer keeps 1 MiB
// of it), or a JPEG with EXIF data - as it is or hidden behind junk bytes -
// under two file names, one with an image extension and one without.
func (b *wb) addMedia(budget int) {
	r := b.r
	if r.Bool(0.4) || budget < 3 {
		b.nblob++
		b.add(Item{K: "blob", Seed: r.Uint64() % 1000, Size: (1 << 20) + 2 + r.Intn(600000), Media: "png"})
		return
	}
	b.nblob++
	chunk := b.add(Item{K: "blob", Media: []string{"jpeg", "junkjpeg", "junkjpeg"}[r.Intn(3)]})
	names := []string{"shot.jpg", "shot.dat"}
	if r.Bool(0.5) {
		names[0], names[1] = names[1], names[0]
	}
	for _, n := range names {
		b.add(Item{K: "file", Parts: []int{chunk}, Name: n})
	}
}

// addFile adds a file with a bytes tree of the given depth (1 = chunks
// directly under the file) using at most budget items; returns items used.
func (b *wb) addFile(budget int) int {
	r := b.r
	start := b.n()
	levels := r.Range(1, 3)
	for levels > 1 && budget < 1+levels {
		levels--
	}
	if budget < 2 {
		return 0
	}
	nchunks := r.Range(1, 3)
	if max := budget - levels; nchunks > max {
		nchunks = max
	}
	if nchunks < 1 {
		nchunks = 1
	}
	var chunks []int
	for i := 0; i < nchunks; i++ {
		if len(b.blobs) > 0 && r.Bool(0.15) {
			chunks = append(chunks, b.pick(b.blobs)) // shared chunk
			continue
		}
		chunks = append(chunks, b.addBlob())
	}
	parts := chunks
	for l := 1; l < levels; l++ {
		// wrap a suffix of the parts into a bytes blob
		k := r.Range(1, len(parts))
		inner := append([]int{}, parts[len(parts)-k:]...)
		by := b.add(Item{K: "bytes", Parts: inner})
		parts = append(append([]int{}, parts[:len(parts)-k]...), by)
	}
	it := Item{K: "file", Parts: parts, Name: []string{"f.txt", "a b.dat", "é.bin", ""}[r.Intn(4)]}
	if r.Bool(0.5) {
		it.MT = int64(r.Range(1, 100000))
	}
	b.add(it)
	return b.n() - start
}

func (b *wb) addDir(budget int) int {
	r := b.r
	start := b.n()
	if budget < 2 {
		return 0
	}
	members := func() []int {
		var m []int
		c := append(append(append([]int{}, b.files...), b.blobs...), b.dirs...)
		for _, x := range c {
			if r.Bool(0.5) {
				m = append(m, x)
			}
		}
		return m
	}
	var top int
	if budget >= 4 && r.Bool(0.4) {
		a := b.add(Item{K: "sset", Mem: members()})
		if len(b.items[a].Mem) == 0 && len(b.blobs) > 0 {
			b.items[a].Mem = []int{b.blobs[0]}
		}
		c := b.add(Item{K: "sset", Mem: members()})
		if len(b.items[c].Mem) == 0 && len(b.blobs) > 0 {
			b.items[c].Mem = []int{b.blobs[0]}
		}
		top = b.add(Item{K: "sset", Merge: []int{a, c}})
	} else {
		top = b.add(Item{K: "sset", Mem: members()})
	}
	it := Item{K: "dir", Ent: top, Name: []string{"d", "d 1", ""}[r.Intn(3)]}
	if r.Bool(0.3) {
		it.MT = int64(r.Range(1, 100000))
	}
	b.add(it)
	return b.n() - start
}

// genWorld draws a world of at most maxItems blobs.
func genWorld(r *simcore.Rand, maxItems int, allowEq bool) *WorldSpec {
	signers := 1
	if NumIdentities() >= 2 && r.Bool(0.25) && maxItems >= 5 {
		signers = 2
	}
	b := newWB(r, signers, allowEq)
	target := r.Range(2, maxItems)
	if target < b.n()+1 {
		target = b.n() + 1
	}
	// feature weights for this world (swarm: some features switched off)
	wPN, wClaim, wDel, wFile, wDir, wBlob := 2, 6, 3, 2, 1, 1
	if r.Bool(0.3) {
		wFile, wDir = 0, 0
	}
	if r.Bool(0.15) {
		wClaim, wDel, wPN = 1, 0, 1
	}
	if r.Bool(0.25) {
		wDel = 8
	}
	// (drawn from a stream of its own: the other draws are as before)
	media := simcore.NewRand(simcore.Mix(r.Uint64(), "media")).Intn(40) == 0
	for guard := 0; b.n() < target && guard < 100; guard++ {
		budget := target - b.n()
		total := wPN + wClaim + wDel + wFile + wDir + wBlob
		x := r.Intn(total)
		switch {
		case x < wPN:
			b.addPN()
		case x < wPN+wClaim:
			if len(b.pns) == 0 {
				b.addPN()
				continue
			}
			b.addClaim(b.pick(b.pns))
		case x < wPN+wClaim+wDel:
			if b.addDel() < 0 {
				b.addPN()
			}
		case x < wPN+wClaim+wDel+wFile:
			b.addFile(budget)
		case x < wPN+wClaim+wDel+wFile+wDir:
			b.addDir(budget)
		default:
			b.addBlob()
		}
	}
	if media {
		b.addMedia(3)
	}
	return &WorldSpec{Items: b.items}
}

// genSmallWorld draws a world of at most n (<= 5) blobs from recipes that
// concentrate on dependency chains.
func genSmallWorld(r *simcore.Rand, n int) *WorldSpec {
	if r.Bool(0.4) {
		return genWorld(r, n, r.Bool(0.2))
	}
	b := newWB(r, 1, false)
	switch r.Intn(6) {
	case 0: // delete chain on a claim
		pn := b.addPN()
		c := b.addClaim(pn)
		d := b.add(Item{K: "del", T: c, D: b.date()})
		if n >= 5 {
			b.add(Item{K: "del", T: d, D: b.date()})
		}
	case 1: // delete chain on a permanode
		pn := b.addPN()
		d := b.add(Item{K: "del", T: pn, D: b.date()})
		d2 := b.add(Item{K: "del", T: d, D: b.date()})
		if n >= 5 {
			b.add(Item{K: "del", T: d2, D: b.date()})
		}
	case 2: // file with a bytes tree, no signer needed
		b.items = nil
		b.addFile(n)
	case 3: // directory with merged static sets
		b.items = nil
		b.addBlob()
		b.addDir(n - 1)
	case 4: // permanode pointing at a file
		b.addFile(2)
		pn := b.addPN()
		b.add(Item{K: "claim", CT: "set", PN: pn, Attr: "camliContent", Ref: b.files[0] + 1, D: b.date()})
	case 5: // claims with dates out of order
		pn := b.addPN()
		for b.n() < n {
			b.addClaim(pn)
		}
	}
	if len(b.items) > n {
		b.items = b.items[:n]
	}
	return &WorldSpec{Items: b.items}
}
