package indexsim

import (
	"bytes"
	"context"
	"encoding/json"
	"errors"
	"fmt"
	"io"
	"sort"
	"strings"
	"sync"
	"time"
	"verif/engines/knobs"

	"perkeep.org/pkg/blob"
	"perkeep.org/pkg/index"
	"perkeep.org/pkg/sorted"

	"verif/harness"
	"verif/sim"
	"verif/simcore"
)

type engine struct{}

// recSink receives the scheduler choices of each segment of a history under
// test (one run at a time per process).
var recSink func(rec []int)

func init() {
	harness.Register(engine{})
	// KeepInMemory's statistics logging forces two full garbage collections
	// per corpus load (memstats -> runtime.GC); perkeep's own tests switch it
	// off the same way.
	index.SetVerboseCorpusLogging(false)
}

func (engine) Name() string { return "indexsim" }

// "C14X" is the index part of C14 (the driver runs it as part of C14).
func (engine) Props() []string { return []string{"C05", "C06", "C07", "C14X"} }

// Config is the engine part of a plan.
type Config struct {
	World WorldSpec `json:"world"`
	// Corpus: "" (index rows only) | "start" (KeepInMemory before the first
	// arrival: corpus built incrementally) | "op" (KeepInMemory where the
	// history has a {k:"corpus"} op: scanned, then incremental)
	Corpus string `json:"corpus,omitempty"`
	// ReindexProcs is index.SetReindexMaxProcs for the full-reindex oracle.
	ReindexProcs int `json:"reindexProcs,omitempty"`
	// OracleSeed, when set, seeds the oracle histories (canonical, reindex)
	// instead of the plan's SchedSeed: a replay plan cut out of a permutation
	// run keeps the oracle schedules of the run it came from.
	OracleSeed uint64 `json:"oracleSeed,omitempty"`
	// Perm: execute every permutation of Ops as an independent sub-run.
	Perm bool `json:"perm,omitempty"`
	// Times: extra query instants (ms after base) for C06/C07 (claim dates
	// +-1ns are always used).
	Times []int64 `json:"times,omitempty"`
	// C14: the concurrent feed-while-queried mode (c14.go)
	C14 *c14Cfg `json:"c14,omitempty"`
	// StallMissMs: a fetch from the blob source that misses takes this many
	// (virtual) milliseconds before the miss is reported: a slow source. The
	// index's own receive stays in flight meanwhile, so everything else of
	// the segment runs between the miss and what the receive does about it.
	StallMissMs int `json:"stallMissMs,omitempty"`
}

// Op is one element of the arrival history.
type Op struct {
	// K: deliver | bulk | restart | check | corpus
	K string `json:"k"`
	// deliver: item I by client C; Race = the blob reaches the blob source in
	// a separate task, racing with the index receive
	I    int  `json:"i,omitempty"`
	C    int  `json:"c,omitempty"`
	Race bool `json:"race,omitempty"`
	// bulk: client C delivers N small opaque filler blobs (derived from
	// Seed) one after the other: a big indexing batch.
	N    int    `json:"n,omitempty"`
	Seed uint64 `json:"seed,omitempty"`
	// restart: IterFault > 0 makes the first scan of the "deleted|" rows
	// made while the index is re-opened stop after IterFault-1 rows and
	// report a read error when the iterator is closed (sorted.Iterator has no
	// other way to report one). The open must fail (and is then repeated
	// without the fault) or be complete; it must not succeed on a partial scan.
	IterFault int `json:"iterFault,omitempty"`
	// faildeliver with Cancel: nothing fails; the context of the upload is
	// cancelled the moment the index rows have committed the blob's batch (a
	// client that goes away), and the client uploads the blob again with a
	// live context if it was told the first upload failed.
	Cancel bool `json:"cancel,omitempty"`
}

func (o Op) barrier() bool { return o.K != "deliver" && o.K != "bulk" }

// A "faildeliver" op (a barrier: it runs alone, at quiescence) delivers item I
// by client C while the index's rows refuse the commit of that very blob once
// (an I/O error of the key/value store). The client sees the upload fail; the
// blob counts as not delivered (it is taken out of the blob source again) and
// may be delivered by a later op.

func (e engine) Gen(prop, tier string, run int, r *simcore.Rand) *harness.Plan {
	switch prop {
	case "C05":
		return genC05(tier, run, r)
	case "C06":
		return genC06(tier, run, r)
	case "C07":
		return genC07(tier, run, r)
	case "C14X":
		return genC14X(tier, run, r)
	}
	return nil
}

func (e engine) Exec(rc *harness.RunCtx, p *harness.Plan) (out *harness.Outcome) {
	knobsDone := knobs.Apply(p)
	defer func() { knobsDone(out) }()
	var cfg Config
	if err := json.Unmarshal(p.Config, &cfg); err != nil {
		return &harness.Outcome{Inconclusive: "bad config: " + err.Error()}
	}
	ops := make([]Op, len(p.Ops))
	for i, raw := range p.Ops {
		if err := json.Unmarshal(raw, &ops[i]); err != nil {
			return &harness.Outcome{Inconclusive: "bad op: " + err.Error()}
		}
	}
	w, err := materialise(&cfg.World)
	if err != nil {
		return &harness.Outcome{Inconclusive: "world: " + err.Error()}
	}
	for _, op := range ops {
		if (op.K == "deliver" || op.K == "faildeliver" || op.K == "fetchfaultdeliver") && !w.valid(op.I) {
			return &harness.Outcome{Inconclusive: "op refers to an item outside the world"}
		}
	}
	// Sub-runs and history segments re-seed the scheduler (Reseed restarts a
	// tape from its beginning), so replays are driven by seeds alone: a tape
	// is ignored. The choices of the histories under test are collected in
	// recAll and published as the run's tape only for the interleaving
	// statistics (ScheduleHash).
	var recAll []int
	if rc.Sched != nil {
		rc.Sched.Tape = nil
		recSink = func(rec []int) {
			if len(recAll) < 8192 {
				recAll = append(recAll, rec...)
			}
		}
		defer func() {
			recSink = nil
			rc.Sched.Reseed(0)
			rc.Sched.Rec = recAll
		}()
	}
	switch p.Prop {
	case "C05":
		return execC05(rc, p, &cfg, w, ops)
	case "C06":
		return execC06(rc, p, &cfg, w, ops)
	case "C07":
		return execC07(rc, p, &cfg, w, ops)
	case "C14X":
		return execC14X(rc, p, &cfg, w)
	}
	return &harness.Outcome{Inconclusive: "unknown property " + p.Prop}
}

// ---------------------------------------------------------------------------
// session: one index over one durable KV + one blob source

type session struct {
	rc    *harness.RunCtx
	sched *simcore.Sched
	env   *sim.Env
	w     *world
	name  string

	srcSt *sim.StoreState
	kvSt  *sim.KVState
	srcW  *sim.SimStore
	idx   *index.Index
	// corpus of the current index object (nil without KeepInMemory)
	corpus *index.Corpus

	corpusOn bool

	mu        sync.Mutex
	delivered map[string]bool // refs handed to the index (and to the source)
	recvErrs  []string
	reach     map[string]int
	nput      int
	waited    map[string]bool // refs for which a missing| row was written and that are not indexed yet
	// fillers delivered by bulk ops (ref -> true); never part of the world
	fillers map[string]bool
	// faultKV: the index rows are wrapped in a store whose CommitBatch can
	// be made to fail; failHave: "have:<ref>" keys whose batch fails once
	faultKV  bool
	failHave map[string]bool
	// cancelHave: "have:<ref>" -> cancel function of the upload in flight
	cancelHave map[string]context.CancelFunc
	// failFind > 0: see Op.IterFault (armed for one Find)
	failFind int
	// failFetch > 0: the failFetch-th fetch from the source fails (fetchfaultdeliver)
	failFetch  int
	fetchFired bool
	srcFaults  bool
	stallMiss  time.Duration
	nstall     int
}

// errCommit is the injected failure of a CommitBatch.
var errCommit = fmt.Errorf("%w: index rows: CommitBatch failed", sim.ErrInjected)

// faultKV fails the commit of a batch that holds an armed key, once, without
// applying anything of it.
type faultKV struct {
	sorted.KeyValue
	s *session
}

type faultBatch struct {
	sorted.BatchMutation
	keys []string
}

func (b *faultBatch) Set(k, v string) {
	b.keys = append(b.keys, k)
	b.BatchMutation.Set(k, v)
}

func (b *faultBatch) Delete(k string) {
	b.keys = append(b.keys, k)
	b.BatchMutation.Delete(k)
}

// errScan is the injected read failure of a range scan.
var errScan = fmt.Errorf("%w: index rows: read error during a range scan", sim.ErrInjected)

type cutIter struct {
	sorted.Iterator
	left int
	cut  bool
}

func (c *cutIter) Next() bool {
	if c.left <= 0 {
		c.cut = true
		return false
	}
	c.left--
	return c.Iterator.Next()
}

func (c *cutIter) Close() error {
	c.Iterator.Close()
	return errScan
}

func (kv faultKV) Find(start, end string) sorted.Iterator {
	it := kv.KeyValue.Find(start, end)
	kv.s.mu.Lock()
	n := kv.s.failFind
	if n > 0 && strings.HasPrefix(start, "deleted|") {
		kv.s.failFind = 0
		kv.s.reach["scan-read-error-injected"]++
	} else {
		n = 0
	}
	kv.s.mu.Unlock()
	if n > 0 {
		return &cutIter{Iterator: it, left: n - 1}
	}
	return it
}

// reopen is open() for a restart op: with an iterator fault armed, an open
// that fails with the injected error is repeated without the fault.
func (s *session) reopen(op Op) (refused bool, err error) {
	if op.IterFault <= 0 {
		return false, s.open()
	}
	was := s.faultKV
	s.faultKV = true
	s.mu.Lock()
	s.failFind = op.IterFault
	s.mu.Unlock()
	err = s.open()
	s.mu.Lock()
	s.failFind = 0
	s.mu.Unlock()
	s.faultKV = was
	if err != nil && errors.Is(err, sim.ErrInjected) {
		s.reach["restart-refused-on-read-error"]++
		return true, s.open()
	}
	return false, err
}

func (kv faultKV) BeginBatch() sorted.BatchMutation {
	return &faultBatch{BatchMutation: kv.KeyValue.BeginBatch()}
}

func (kv faultKV) CommitBatch(bm sorted.BatchMutation) error {
	fb, ok := bm.(*faultBatch)
	if !ok {
		return kv.KeyValue.CommitBatch(bm)
	}
	kv.s.mu.Lock()
	hit := false
	for _, k := range fb.keys {
		if kv.s.failHave[k] {
			delete(kv.s.failHave, k)
			hit = true
		}
	}
	if hit {
		kv.s.reach["commit-failure-injected"]++
	}
	kv.s.mu.Unlock()
	if hit {
		simcore.Yield("indexsim.kv.commit.fail")
		return errCommit
	}
	err := kv.KeyValue.CommitBatch(fb.BatchMutation)
	if err == nil {
		kv.s.mu.Lock()
		for _, k := range fb.keys {
			if cancel := kv.s.cancelHave[k]; cancel != nil {
				delete(kv.s.cancelHave, k)
				kv.s.reach["upload-context-cancelled-at-commit"]++
				cancel()
			}
		}
		kv.s.mu.Unlock()
	}
	return err
}

// failDeliver executes a faildeliver op as a task of its own and reports
// whether the delivery failed with the injected error (then the blob is not
// delivered) or went through (then it is an ordinary delivery: the commit the
// fault was armed for did not happen, e.g. because a dependency is missing).
func (s *session) failDeliver(op Op, n int) (failed bool, err error) {
	b := s.w.b[op.I]
	herr := s.task(fmt.Sprintf("c%d", op.C), func() {
		ctx := context.Background()
		had := s.srcSt.Has(b.RefS)
		if _, err := s.srcW.ReceiveBlob(ctx, b.Ref, bytes.NewReader(b.Data)); err != nil {
			s.mu.Lock()
			s.recvErrs = append(s.recvErrs, fmt.Sprintf("source put %s: %v", b.RefS, err))
			s.mu.Unlock()
		}
		if op.Cancel {
			cctx, cancel := context.WithCancel(ctx)
			s.mu.Lock()
			if s.cancelHave == nil {
				s.cancelHave = map[string]context.CancelFunc{}
			}
			s.cancelHave["have:"+b.RefS] = cancel
			s.mu.Unlock()
			_, rerr := s.idx.ReceiveBlob(cctx, b.Ref, bytes.NewReader(b.Data))
			s.mu.Lock()
			delete(s.cancelHave, "have:"+b.RefS)
			s.mu.Unlock()
			cancel()
			if rerr != nil && errors.Is(rerr, context.Canceled) {
				// told that the upload failed: the client uploads again
				s.mu.Lock()
				s.reach["upload-reported-cancelled-then-repeated"]++
				s.mu.Unlock()
				_, rerr = s.idx.ReceiveBlob(ctx, b.Ref, bytes.NewReader(b.Data))
			}
			s.mu.Lock()
			s.delivered[b.RefS] = true
			if rerr != nil {
				s.recvErrs = append(s.recvErrs, fmt.Sprintf("index receive of item %d (%s): %v", op.I, s.w.item(op.I).K, rerr))
			}
			s.mu.Unlock()
			return
		}
		s.mu.Lock()
		if s.failHave == nil {
			s.failHave = map[string]bool{}
		}
		s.failHave["have:"+b.RefS] = true
		s.mu.Unlock()
		_, rerr := s.idx.ReceiveBlob(ctx, b.Ref, bytes.NewReader(b.Data))
		s.mu.Lock()
		delete(s.failHave, "have:"+b.RefS)
		switch {
		case rerr != nil && errors.Is(rerr, sim.ErrInjected):
			failed = true
			s.reach["delivery-failed-at-commit"]++
			if !had {
				s.srcSt.Del(b.RefS)
			}
		case rerr != nil:
			s.delivered[b.RefS] = true
			s.recvErrs = append(s.recvErrs, fmt.Sprintf("index receive of item %d (%s): %v", op.I, s.w.item(op.I).K, rerr))
		default:
			s.delivered[b.RefS] = true
		}
		s.mu.Unlock()
	})
	if herr != nil {
		return false, herr
	}
	return failed, s.await()
}

// errFetch is the injected read error of the blob source (not a not-exist).
var errFetch = fmt.Errorf("%w: blob source: read error", sim.ErrInjected)

// fetchFaultDeliver executes a "fetchfaultdeliver" op (a barrier op): item I
// is delivered while the N-th fetch the index makes from the blob source
// during that delivery fails with a read error. A delivery that fails counts
// as not delivered (and may be repeated by a later op); one that succeeds is
// an ordinary delivery and must have produced the ordinary rows.
func (s *session) fetchFaultDeliver(op Op, n int) (failed bool, err error) {
	b := s.w.b[op.I]
	herr := s.task(fmt.Sprintf("c%d", op.C), func() {
		ctx := context.Background()
		had := s.srcSt.Has(b.RefS)
		if _, err := s.srcW.ReceiveBlob(ctx, b.Ref, bytes.NewReader(b.Data)); err != nil {
			s.mu.Lock()
			s.recvErrs = append(s.recvErrs, fmt.Sprintf("source put %s: %v", b.RefS, err))
			s.mu.Unlock()
		}
		s.mu.Lock()
		s.failFetch, s.fetchFired = op.N, false
		if s.failFetch <= 0 {
			s.failFetch = 1
		}
		s.mu.Unlock()
		_, rerr := s.idx.ReceiveBlob(ctx, b.Ref, bytes.NewReader(b.Data))
		s.mu.Lock()
		s.failFetch = 0
		switch {
		case rerr != nil && (errors.Is(rerr, sim.ErrInjected) || s.fetchFired):
			// (readers between the source and the index may turn the read
			// error into their own, e.g. io.ErrUnexpectedEOF)
			failed = true
			s.reach["delivery-failed-on-source-read-error"]++
			if !had {
				s.srcSt.Del(b.RefS)
			}
		case rerr != nil:
			s.delivered[b.RefS] = true
			s.recvErrs = append(s.recvErrs, fmt.Sprintf("index receive of item %d (%s): %v", op.I, s.w.item(op.I).K, rerr))
		default:
			s.delivered[b.RefS] = true
		}
		s.mu.Unlock()
	})
	if herr != nil {
		return false, herr
	}
	return failed, s.await()
}

// stallSrc is the blob source as the index sees it when misses are slow.
type stallSrc struct {
	*sim.SimStore
	s *session
}

func (x stallSrc) Fetch(ctx context.Context, br blob.Ref) (io.ReadCloser, uint32, error) {
	x.s.mu.Lock()
	hit := false
	if x.s.failFetch > 0 {
		x.s.failFetch--
		if x.s.failFetch == 0 {
			hit = true
			x.s.fetchFired = true
			x.s.reach["source-read-error-injected"]++
		}
	}
	x.s.mu.Unlock()
	if hit {
		simcore.Yield("indexsim.src.fetch.fail")
		return nil, 0, errFetch
	}
	rc, size, err := x.SimStore.Fetch(ctx, br)
	if err != nil && x.s.stallMiss > 0 {
		x.s.mu.Lock()
		x.s.nstall++
		// distinct wake-up instants: two sleepers never become runnable
		// at the same virtual time
		d := x.s.stallMiss + time.Duration(x.s.nstall)*time.Millisecond
		x.s.reach["source-miss-stalled"]++
		x.s.mu.Unlock()
		time.Sleep(d)
		simcore.Yield("indexsim.stall.wake")
	}
	return rc, size, err
}

// fillerBlob is the k-th filler of a bulk op.
func fillerBlob(seed uint64, k int) (blob.Ref, []byte) {
	data := []byte(fmt.Sprintf("filler %016x %08d", seed, k))
	return blob.RefFromBytes(data), data
}

// bulk delivers the fillers of a bulk op.
func (s *session) bulk(op Op) {
	ctx := context.Background()
	for k := 0; k < op.N; k++ {
		br, data := fillerBlob(op.Seed, k)
		_, err := s.srcW.ReceiveBlob(ctx, br, bytes.NewReader(data))
		if err == nil {
			_, err = s.idx.ReceiveBlob(ctx, br, bytes.NewReader(data))
		}
		s.mu.Lock()
		if s.fillers == nil {
			s.fillers = map[string]bool{}
		}
		s.fillers[br.String()] = true
		if err != nil && len(s.recvErrs) < 8 {
			s.recvErrs = append(s.recvErrs, fmt.Sprintf("filler %d of a bulk delivery: %v", k, err))
		}
		s.mu.Unlock()
	}
}

func newSession(rc *harness.RunCtx, w *world, name string) *session {
	return &session{
		rc: rc, sched: rc.Sched, env: sim.NewEnv(), w: w, name: name,
		srcSt: sim.NewStoreState("src"), kvSt: sim.NewKVState("idx"),
		delivered: map[string]bool{}, reach: map[string]int{},
	}
}

// tasks runs the given functions as scheduler tasks and returns at quiescence.
func (s *session) tasks(names []string, fs []func()) error {
	if s.sched == nil {
		var wg sync.WaitGroup
		for _, f := range fs {
			wg.Add(1)
			go func() { defer wg.Done(); f() }()
		}
		wg.Wait()
		return nil
	}
	for i, f := range fs {
		s.sched.Go(names[i], f)
	}
	return s.sched.Run()
}

func (s *session) task(name string, f func()) error {
	return s.tasks([]string{name}, []func(){f})
}

// open creates a new index object over the durable rows (first start or
// restart), as serverinit does: index.New, InitBlobSource, and the search
// handler's KeepInMemory under the index lock.
func (s *session) open() error {
	var oerr error
	herr := s.task("open", func() {
		var kv sorted.KeyValue = &sim.SimKV{Env: s.env, G: s.env.Gen, St: s.kvSt}
		if s.faultKV {
			kv = faultKV{kv, s}
		}
		s.srcW = &sim.SimStore{Env: s.env, G: s.env.Gen, St: s.srcSt}
		idx, err := index.New(kv)
		if err != nil {
			oerr = fmt.Errorf("index.New: %w", err)
			return
		}
		if s.stallMiss > 0 || s.srcFaults {
			idx.InitBlobSource(stallSrc{s.srcW, s})
		} else {
			idx.InitBlobSource(s.srcW)
		}
		s.idx = idx
		s.corpus = nil
		if s.corpusOn {
			oerr = s.keepInMemoryLocked()
		}
	})
	if herr != nil {
		return fmt.Errorf("opening the index never finished: %w", herr)
	}
	return oerr
}

func (s *session) keepInMemoryLocked() error {
	s.idx.Lock()
	defer s.idx.Unlock()
	c, err := s.idx.KeepInMemory()
	if err != nil {
		return fmt.Errorf("KeepInMemory: %w", err)
	}
	s.corpus = c
	return nil
}

// enableCorpus loads the corpus from the existing rows (scan), then keeps it
// updated incrementally.
func (s *session) enableCorpus() error {
	if s.corpusOn {
		return nil
	}
	s.corpusOn = true
	var err error
	if herr := s.task("corpus", func() { err = s.keepInMemoryLocked() }); herr != nil {
		return herr
	}
	return err
}

func (s *session) deliver(op Op, n int) {
	ctx := context.Background()
	b := s.w.b[op.I]
	put := func() {
		if _, err := s.srcW.ReceiveBlob(ctx, b.Ref, bytes.NewReader(b.Data)); err != nil {
			s.mu.Lock()
			s.recvErrs = append(s.recvErrs, fmt.Sprintf("source put %s: %v", b.RefS, err))
			s.mu.Unlock()
		}
	}
	if op.Race && s.sched != nil {
		s.sched.Go(fmt.Sprintf("put%03d", n), put)
	} else {
		put()
	}
	_, err := s.idx.ReceiveBlob(ctx, b.Ref, bytes.NewReader(b.Data))
	s.mu.Lock()
	s.delivered[b.RefS] = true
	if err != nil {
		s.recvErrs = append(s.recvErrs, fmt.Sprintf("index receive of item %d (%s): %v", op.I, s.w.item(op.I).K, err))
	}
	s.mu.Unlock()
}

// segment executes deliveries concurrently, one task per client, then waits
// for quiescence including the index's own re-indexing goroutines.
func (s *session) segment(ops []Op, base int) error {
	byC := map[int][]int{}
	for i, op := range ops {
		if op.K == "deliver" || op.K == "bulk" {
			byC[op.C] = append(byC[op.C], i)
		}
	}
	var cs []int
	for c := range byC {
		cs = append(cs, c)
	}
	sort.Ints(cs)
	var names []string
	var fs []func()
	for _, c := range cs {
		list := byC[c]
		names = append(names, fmt.Sprintf("c%d", c))
		fs = append(fs, func() {
			for _, i := range list {
				if ops[i].K == "bulk" {
					s.bulk(ops[i])
					continue
				}
				s.deliver(ops[i], base+i)
			}
		})
	}
	if len(fs) > 0 {
		if err := s.tasks(names, fs); err != nil {
			return err
		}
	}
	return s.await()
}

// await: quiescence of the out-of-order re-indexing.
func (s *session) await() error {
	if s.idx == nil {
		return nil
	}
	return s.task("await", func() { s.idx.VerifAwaitReindex() })
}

func (s *session) rows() map[string]string { return s.kvSt.Snapshot() }

func (s *session) reseed(seed uint64) {
	if s.sched != nil {
		s.sched.Reseed(seed)
	}
}

// flushRec publishes the choices made since the last reseed.
func (s *session) flushRec() {
	if s.sched != nil && s.name == "main" && recSink != nil {
		recSink(s.sched.Rec)
		s.sched.Reseed(0)
	}
}

// ---------------------------------------------------------------------------
// helpers shared by the properties

// diffRows lists the differences between two row dumps, sorted by key.
func diffRows(got, want map[string]string, skip func(k string) bool) []string {
	var out []string
	keys := map[string]bool{}
	for k := range got {
		keys[k] = true
	}
	for k := range want {
		keys[k] = true
	}
	for _, k := range sortedKeys(keys) {
		if skip != nil && skip(k) {
			continue
		}
		g, gok := got[k]
		w, wok := want[k]
		switch {
		case gok && !wok:
			out = append(out, fmt.Sprintf("extra row %q=%q", k, g))
		case !gok && wok:
			out = append(out, fmt.Sprintf("missing row %q=%q", k, w))
		case g != w:
			out = append(out, fmt.Sprintf("row %q: got %q want %q", k, g, w))
		}
	}
	return out
}

// diffFamilies names the row families of a diff list ("have+missing").
func diffFamilies(diffs []string) string {
	seen := map[string]bool{}
	for _, d := range diffs {
		i := strings.IndexByte(d, '"')
		if i < 0 {
			continue
		}
		k := d[i+1:]
		seen[rowFamily(k)] = true
	}
	return strings.Join(sortedKeys(seen), "+")
}

func clip(ss []string, n int) string {
	if len(ss) > n {
		return strings.Join(ss[:n], "; ") + fmt.Sprintf("; ... %d more", len(ss)-n)
	}
	return strings.Join(ss, "; ")
}

func (w *world) describe(i int) string {
	it := w.item(i)
	switch it.K {
	case "key":
		return fmt.Sprintf("#%d key(signer %d)", i, it.S)
	case "blob":
		return fmt.Sprintf("#%d blob(%dB)", i, it.Size)
	case "bytes":
		return fmt.Sprintf("#%d bytes%v", i, it.Parts)
	case "file":
		return fmt.Sprintf("#%d file%v", i, it.Parts)
	case "sset":
		if len(it.Merge) > 0 {
			return fmt.Sprintf("#%d static-set(merge %v)", i, it.Merge)
		}
		return fmt.Sprintf("#%d static-set(members %v)", i, it.Mem)
	case "dir":
		return fmt.Sprintf("#%d dir(entries #%d)", i, it.Ent)
	case "pn":
		return fmt.Sprintf("#%d permanode(%s, signer %d)", i, it.Key, it.S)
	case "claim":
		v := it.Val
		if it.Ref > 0 {
			v = fmt.Sprintf("ref(#%d)", it.Ref-1)
		}
		return fmt.Sprintf("#%d %s-attribute(pn #%d, %s=%q, t=%dms, signer %d)", i, it.CT, it.PN, it.Attr, v, it.D, it.S)
	case "del":
		return fmt.Sprintf("#%d delete(target #%d, t=%dms, signer %d)", i, it.T, it.D, it.S)
	}
	return fmt.Sprintf("#%d ?", i)
}

func (w *world) describeOps(ops []Op) []string {
	var out []string
	for _, op := range ops {
		switch op.K {
		case "deliver":
			s := fmt.Sprintf("c%d: %s", op.C, w.describe(op.I))
			if op.Race {
				s += " [source put races]"
			}
			out = append(out, s)
		case "bulk":
			out = append(out, fmt.Sprintf("c%d: %d opaque filler blobs", op.C, op.N))
		case "faildeliver":
			if op.Cancel {
				out = append(out, fmt.Sprintf("c%d: %s [the upload's context is cancelled the moment the rows are committed; repeated if reported failed]", op.C, w.describe(op.I)))
			} else {
				out = append(out, fmt.Sprintf("c%d: %s [the index rows fail the commit of this blob once]", op.C, w.describe(op.I)))
			}
		case "fetchfaultdeliver":
			out = append(out, fmt.Sprintf("c%d: %s [fetch #%d from the blob source during this delivery fails with a read error]", op.C, w.describe(op.I), op.N))
		default:
			out = append(out, op.K)
		}
	}
	return out
}

func opKinds(w *world, ops []Op) string {
	var sb strings.Builder
	for _, op := range ops {
		switch op.K {
		case "deliver":
			sb.WriteString(w.item(op.I).K[:1])
			if w.item(op.I).K == "del" {
				sb.WriteString("x")
			}
		case "bulk":
			sb.WriteString("B")
		case "faildeliver":
			sb.WriteString("!" + w.item(op.I).K[:1])
		case "fetchfaultdeliver":
			sb.WriteString("^" + w.item(op.I).K[:1])
		case "restart":
			sb.WriteString("R")
		case "check":
			sb.WriteString("?")
		case "corpus":
			sb.WriteString("M")
		}
	}
	return sb.String()
}

func opsJSON(ops []Op) []json.RawMessage {
	out := make([]json.RawMessage, len(ops))
	for i, op := range ops {
		out[i] = harness.MustJSON(op)
	}
	return out
}

// permutations calls f with every permutation of 0..n-1 in lexicographic
// order until f returns false.
func permutations(n int, f func(p []int) bool) {
	p := make([]int, n)
	for i := range p {
		p[i] = i
	}
	for {
		if !f(p) {
			return
		}
		i := n - 2
		for i >= 0 && p[i] > p[i+1] {
			i--
		}
		if i < 0 {
			return
		}
		j := n - 1
		for p[j] < p[i] {
			j--
		}
		p[i], p[j] = p[j], p[i]
		for a, b := i+1, n-1; a < b; a, b = a+1, b-1 {
			p[a], p[b] = p[b], p[a]
		}
	}
}
