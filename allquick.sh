#!/bin/bash
# allquick.sh [tier] - runs every registered check once on /repo itself (rewrites every evidence file)
# and prints one line per property. Development aid; MANIFEST.json lists the commands individually.
export GOFLAGS=-mod=mod GOPROXY=off
cd /verif && go build -o bin/check ./cmd/check || exit 2
T=${1:-quick}; bad=0
for p in $(python3 -c "import json;print(' '.join(c['property_id'] if 'property_id' in c else c['id'] for c in json.load(open('/verif/MANIFEST.json'))['checks']))"); do
  bin/check $p $T > /tmp/allquick-$p.txt 2>&1; rc=$?
  echo "$p rc=$rc $(grep -c '^KNOWN-FINDING' /tmp/allquick-$p.txt) known-finding lines; $(tail -1 /tmp/allquick-$p.txt | cut -c1-160)"
  [ $rc != 0 ] && bad=1
done
exit $bad
