module verif

go 1.25.3

require (
	github.com/anishathalye/porcupine v1.3.0
	go4.org v0.0.0-20230225012048-214862532bf5
	golang.org/x/crypto v0.38.0
	perkeep.org v0.0.0
)

require (
	cloud.google.com/go/compute/metadata v0.3.0 // indirect
	filippo.io/age v1.2.1 // indirect
	filippo.io/edwards25519 v1.1.0 // indirect
	github.com/bradfitz/latlong v0.0.0-20170410180902-f3db6d0dff40 // indirect
	github.com/coder/websocket v1.8.12 // indirect
	github.com/dustin/go-humanize v1.0.1 // indirect
	github.com/ebitengine/purego v0.9.1 // indirect
	github.com/edsrzf/mmap-go v1.1.0 // indirect
	github.com/fxamacker/cbor/v2 v2.7.0 // indirect
	github.com/gaissmai/bart v0.18.0 // indirect
	github.com/garyburd/go-oauth v0.0.0-20180319155456-bca2e7f09a17 // indirect
	github.com/go-json-experiment/json v0.0.0-20250813024750-ebf49471dced // indirect
	github.com/godbus/dbus/v5 v5.1.1-0.20230522191255-76236955d466 // indirect
	github.com/golang/groupcache v0.0.0-20210331224755-41bb18bfe9da // indirect
	github.com/golang/protobuf v1.5.4 // indirect
	github.com/golang/snappy v0.0.4 // indirect
	github.com/google/btree v1.1.2 // indirect
	github.com/google/s2a-go v0.1.4 // indirect
	github.com/google/uuid v1.6.0 // indirect
	github.com/googleapis/enterprise-certificate-proxy v0.2.4 // indirect
	github.com/googleapis/gax-go/v2 v2.12.0 // indirect
	github.com/gorilla/websocket v1.5.3 // indirect
	github.com/hdevalence/ed25519consensus v0.2.0 // indirect
	github.com/hjfreyer/taglib-go v0.0.0-20151027170453-0ef8bba9c41b // indirect
	github.com/jsimonetti/rtnetlink v1.4.0 // indirect
	github.com/klauspost/compress v1.17.11 // indirect
	github.com/mattn/go-isatty v0.0.20 // indirect
	github.com/mattn/go-mastodon v0.0.5-0.20190517015615-8f6192e26b66 // indirect
	github.com/mdlayher/netlink v1.7.3-0.20250113171957-fbb4dce95f42 // indirect
	github.com/mdlayher/socket v0.5.0 // indirect
	github.com/mitchellh/go-ps v1.0.0 // indirect
	github.com/nf/cr2 v0.0.0-20140528043846-05d46fef4f2f // indirect
	github.com/perkeep/heic v0.0.0-20260105010044-a57ca1ce101f // indirect
	github.com/plaid/plaid-go v0.0.0-20161222051224-02b6af68061b // indirect
	github.com/remyoudompheng/bigfft v0.0.0-20230129092748-24d4a6f8daec // indirect
	github.com/rwcarlsen/goexif v0.0.0-20190401172101-9e8deecbddbd // indirect
	github.com/safchain/ethtool v0.3.0 // indirect
	github.com/syndtr/goleveldb v1.0.1-0.20210305035536-64b5b1c73954 // indirect
	github.com/tailscale/goupnp v1.0.1-0.20210804011211-c64d0f06ea05 // indirect
	github.com/tailscale/hujson v0.0.0-20221223112325-20486734a56a // indirect
	github.com/tailscale/peercred v0.0.0-20250107143737-35a0c7bd7edc // indirect
	github.com/tailscale/web-client-prebuilt v0.0.0-20250124233751-d4cd19a26976 // indirect
	github.com/tailscale/wireguard-go v0.0.0-20250716170648-1d0488a3d7da // indirect
	github.com/tetratelabs/wazero v1.9.0 // indirect
	github.com/tgulacsi/picago v0.0.0-20171229130838-9e1ac2306c70 // indirect
	github.com/tomnomnom/linkheader v0.0.0-20180905144013-02ca5825eb80 // indirect
	github.com/x448/float16 v0.8.4 // indirect
	go.opencensus.io v0.24.0 // indirect
	go4.org/mem v0.0.0-20240501181205-ae6ca9944745 // indirect
	go4.org/netipx v0.0.0-20231129151722-fdeea329fbba // indirect
	golang.org/x/exp v0.0.0-20250210185358-939b2ce775ac // indirect
	golang.org/x/image v0.27.0 // indirect
	golang.org/x/net v0.40.0 // indirect
	golang.org/x/oauth2 v0.30.0 // indirect
	golang.org/x/sync v0.14.0 // indirect
	golang.org/x/sys v0.33.0 // indirect
	golang.org/x/term v0.32.0 // indirect
	golang.org/x/text v0.25.0 // indirect
	golang.org/x/time v0.11.0 // indirect
	google.golang.org/api v0.128.0 // indirect
	google.golang.org/appengine v1.6.8 // indirect
	google.golang.org/genproto/googleapis/rpc v0.0.0-20231002182017-d307bd883b97 // indirect
	google.golang.org/grpc v1.59.0 // indirect
	google.golang.org/protobuf v1.36.3 // indirect
	gvisor.dev/gvisor v0.0.0-20250205023644-9414b50a5633 // indirect
	modernc.org/fileutil v1.0.1-0.20200808163328-2079183a536e // indirect
	modernc.org/internal v1.0.3 // indirect
	modernc.org/kv v1.0.4 // indirect
	modernc.org/libc v1.29.0 // indirect
	modernc.org/lldb v1.0.2 // indirect
	modernc.org/mathutil v1.6.0 // indirect
	modernc.org/memory v1.7.2 // indirect
	modernc.org/sortutil v1.1.0 // indirect
	modernc.org/sqlite v1.28.0 // indirect
	modernc.org/zappy v1.0.3 // indirect
	rsc.io/qr v0.2.0 // indirect
	tailscale.com v1.90.9 // indirect
)

replace perkeep.org => /repo
