module verif

go 1.25.3

require (
	github.com/anishathalye/porcupine v1.3.0
	go4.org v0.0.0-20230225012048-214862532bf5
	golang.org/x/crypto v0.38.0
	perkeep.org v0.0.0
)

require (
	cloud.google.com/go/compute/metadata v0.3.0 // indirect
	filippo.io/age v1.2.1 // indirect
	github.com/bradfitz/latlong v0.0.0-20170410180902-f3db6d0dff40 // indirect
	github.com/dustin/go-humanize v1.0.1 // indirect
	github.com/ebitengine/purego v0.9.1 // indirect
	github.com/edsrzf/mmap-go v1.1.0 // indirect
	github.com/golang/snappy v0.0.4 // indirect
	github.com/google/uuid v1.6.0 // indirect
	github.com/gorilla/websocket v1.5.3 // indirect
	github.com/hjfreyer/taglib-go v0.0.0-20151027170453-0ef8bba9c41b // indirect
	github.com/mattn/go-isatty v0.0.20 // indirect
	github.com/nf/cr2 v0.0.0-20140528043846-05d46fef4f2f // indirect
	github.com/perkeep/heic v0.0.0-20260105010044-a57ca1ce101f // indirect
	github.com/remyoudompheng/bigfft v0.0.0-20230129092748-24d4a6f8daec // indirect
	github.com/rwcarlsen/goexif v0.0.0-20190401172101-9e8deecbddbd // indirect
	github.com/syndtr/goleveldb v1.0.1-0.20210305035536-64b5b1c73954 // indirect
	github.com/tetratelabs/wazero v1.9.0 // indirect
	golang.org/x/image v0.27.0 // indirect
	golang.org/x/net v0.40.0 // indirect
	golang.org/x/oauth2 v0.30.0 // indirect
	golang.org/x/sync v0.14.0 // indirect
	golang.org/x/sys v0.33.0 // indirect
	golang.org/x/text v0.25.0 // indirect
	modernc.org/fileutil v1.0.1-0.20200808163328-2079183a536e // indirect
	modernc.org/internal v1.0.3 // indirect
	modernc.org/kv v1.0.4 // indirect
	modernc.org/libc v1.29.0 // indirect
	modernc.org/lldb v1.0.2 // indirect
	modernc.org/mathutil v1.6.0 // indirect
	modernc.org/memory v1.7.2 // indirect
	modernc.org/sortutil v1.1.0 // indirect
	modernc.org/sqlite v1.28.0 // indirect
	modernc.org/zappy v1.0.3 // indirect
	tailscale.com v1.90.9 // indirect
)

replace perkeep.org => /repo
