#!/usr/bin/env python3
# seedstore.py <seed-id> <mutout-dir> <pkg-dir> <breaks-prop> <needs text> <PROP> [PROP...]
# Runs seedcheck.sh and, if the change is confirmed (builds, existing tests pass, demonstration fails
# with and passes without the change), stores it under /verif/seeded/<seed-id>/.
import sys, json, subprocess, os, shutil, glob
sid, d, pkg, prop, needs = sys.argv[1:6]; props = sys.argv[6:]
out = subprocess.run(['/verif/seedcheck.sh', d, pkg] + props, capture_output=True, text=True).stdout.strip().split('\n')[-1]
r = json.loads(out)
confirmed = r.get('applies') and r.get('build') == 'ok' and r.get('demo_fails_with_change', '').strip() not in ('',) and 'BUILD-ERROR' not in r.get('demo_fails_with_change', '') and r.get('existing_tests_failing_with_change', '').strip() == '' and r.get('demo_fails_without_change', '').strip() == ''
r['confirmed'] = bool(confirmed)
print(json.dumps(r, indent=1))
if confirmed:
    dst = '/verif/seeded/' + sid
    os.makedirs(dst, exist_ok=True)
    shutil.copy(d + '/patch.diff', dst)
    for f in glob.glob(d + '/*_test.go'): shutil.copy(f, dst)
    if os.path.exists(d + '/notes.txt'): shutil.copy(d + '/notes.txt', dst)
    caught = {p: (c['exit'] == 1) for p, c in r['checks'].items()}
    meta = {"id": sid, "breaks_property": prop, "needs_to_manifest": needs,
            "demonstration": {"files": [os.path.basename(f) for f in glob.glob(d + '/*_test.go')], "belongs_in": pkg,
                              "fails_with_change": r['demo_fails_with_change'].strip(), "passes_without_change": True},
            "confirmed_by": "seedcheck.sh in scratch worktree /tmp/repo-seed at /repo HEAD " + subprocess.check_output(['git','-C','/repo','rev-parse','--short','HEAD'], text=True).strip() + ": go build ./pkg/... ./cmd/...; go test of the touched package with and without the demonstration; demonstration with and without the change",
            "checks_run": {p: {"cmd": "VERIF_REPO=/tmp/repo-seed bin/check %s %s" % (p, os.environ.get('TIER','quick')), "exit": c['exit'], "caught": c['exit'] == 1, "first_violation_line": c['first'].strip()} for p, c in r['checks'].items()},
            "caught_by": [p for p, v in caught.items() if v]}
    json.dump(meta, open(dst + '/meta.json', 'w'), indent=1)
    print('stored', dst, 'caught_by', meta['caught_by'])
